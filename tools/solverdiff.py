#!/usr/bin/env python3
"""tools/solverdiff.py <ID> [<ID>...]: re-asks the solver queries of a quick run
of each property of two other solvers (z3 5.1.0 = z3-new, cvc5 1.0) and compares
every sat/unsat verdict with the one z3 4.8.12 gave during the run.

The engine writes one transcript per worker (GOSYM_SOLVERLOG); the transcript is
replayed verbatim (push/pop, definitions, assertions, check-sat) through the
other solvers.  Result: /verif/solverdiff.json."""
import json, os, subprocess, sys, tempfile, glob, shutil, time
root = os.path.dirname(os.path.dirname(os.path.abspath(__file__)))
out_path = os.path.join(root, 'solverdiff.json')
res = json.load(open(out_path)) if os.path.exists(out_path) else {}
MAXQ = int(os.environ.get('SOLVERDIFF_MAXQ', '4000'))
def replay(cmd, text, pre=''):
    p = subprocess.run(cmd, input=pre + text, capture_output=True, text=True, timeout=3600)
    return [l.strip() for l in p.stdout.splitlines() if l.strip() in ('sat', 'unsat', 'unknown', 'timeout')], p.stdout.count('(error')
for pid in sys.argv[1:]:
    d = tempfile.mkdtemp(prefix='solverlog-')
    env = dict(os.environ, GOSYM_SOLVERLOG=d)
    t0 = time.time()
    subprocess.run([os.path.join(root, 'check'), pid, 'quick', '-workers', '2', '-nonative', '-evidence', d, '-cexdir', d], env=env, capture_output=True, text=True, cwd=root)
    entry = {'transcripts': 0, 'queries_compared': 0, 'z3_new_disagreements': 0, 'cvc5_disagreements': 0, 'cvc5_unknown': 0, 'z3_new_unknown': 0, 'errors': 0}
    for f in sorted(glob.glob(os.path.join(d, 'solver-*.smt2'))):
        lines = open(f).read().splitlines()
        cmds, ref = [], []
        for l in lines:
            if l.startswith('; <- '):
                a = l[5:].strip()
                if a in ('sat', 'unsat', 'unknown', 'timeout'):
                    ref.append(a)
                continue
            if l.startswith(';'):
                continue
            if l.startswith('(get-value'):
                continue
            cmds.append(l.replace('(check-sat-using qfbv)', '(check-sat)'))
        # z3 4.8.12 retries (check-sat) after a failed tactic call: the retry's
        # answer follows the first; keep transcripts where counts line up
        nq = sum(1 for c in cmds if c == '(check-sat)')
        if nq == 0 or nq != len(ref):
            continue
        room = MAXQ - entry['queries_compared']
        if room <= 0:
            break
        if nq > room:
            # replay only the first `room` queries of this transcript
            k, cut = 0, len(cmds)
            for i, c in enumerate(cmds):
                if c == '(check-sat)':
                    k += 1
                    if k == room:
                        cut = i + 1
                        break
            cmds, ref, nq = cmds[:cut], ref[:room], room
        text = '\n'.join(cmds) + '\n'
        entry['transcripts'] += 1
        for name, cmd, pre in (('z3_new', ['z3-new', '-in', '-t:20000'], ''), ('cvc5', ['cvc5', '--incremental', '--lang=smt2', '--tlimit-per=20000'], '(set-logic ALL)\n')):
            got, errs = replay(cmd, text, pre)
            entry['errors'] += errs
            for a, b in zip(ref, got):
                if b in ('unknown', 'timeout'):
                    entry[name + '_unknown'] += 1
                elif a in ('sat', 'unsat') and a != b:
                    entry[name + '_disagreements'] += 1
            if len(got) != len(ref):
                entry['errors'] += 1
        entry['queries_compared'] += nq
    entry['wall_s'] = round(time.time() - t0, 1)
    shutil.rmtree(d, ignore_errors=True)
    res[pid] = entry
    print(pid, entry)
json.dump(res, open(out_path, 'w'), indent=1)
