#!/bin/bash
# tools/seedrebase.sh <name>: moves the seeded change of /tmp/wt/<name> (made on
# an older /repo HEAD) onto a fresh worktree of the current HEAD, so that the
# seed is confirmed against the tree the checks are registered for.
set -eu
name="$1"; wt=/tmp/wt/$name
cd "$wt"
git diff > /tmp/wt/$name.patch
demo=$(git status --porcelain | awk '/^\?\?/ {print $2}' | grep 'zz_seed_demo_test.go' | head -1)
mkdir -p /tmp/wt/$name.keep && cp "$demo" /tmp/wt/$name.keep/ && cp SEED_NOTES.md /tmp/wt/$name.keep/ 2>/dev/null || true
cd /
git -C /repo worktree remove --force "$wt"
git -C /repo worktree add --detach "$wt" HEAD >/dev/null 2>&1
cd "$wt"
git apply /tmp/wt/$name.patch
cp /tmp/wt/$name.keep/zz_seed_demo_test.go "$demo"
cp /tmp/wt/$name.keep/SEED_NOTES.md . 2>/dev/null || true
git status --short
