#!/usr/bin/env python3
"""tools/calibrate.py <logdir> [--apply]: reads the logs of tools/thorough_sweep.sh
and lists the thorough obligations that did not finish clean within the cap
(BOUND-EXCEEDED, inconclusive, spurious).  With --apply their thorough bounds in
harness/props.d are replaced by the quick bounds (which are run clean on every
change) and the reduction is noted under outside_claim.  A VIOLATION is never
touched by this tool: it has to be triaged by hand."""
import json, os, re, sys, glob
root = os.path.dirname(os.path.dirname(os.path.abspath(__file__)))
logdir = sys.argv[1]
apply = '--apply' in sys.argv
for f in sorted(glob.glob(os.path.join(logdir, 'C*.log'))):
    pid = os.path.basename(f)[:-4]
    pf = os.path.join(root, 'harness', 'props.d', pid + '.json')
    d = json.load(open(pf)); c = d[pid]
    obs = c['obligations']
    idx = -1; bad = {}; viol = 0; walls = {}
    for l in open(f, errors='replace'):
        if 'paths=' in l and ' ... ' not in l and l.startswith('github.com'):
            idx += 1
            m = re.search(r'wall=([0-9.]+)s', l)
            if m: walls[idx] = float(m.group(1))
        elif l.startswith('ERROR'):
            if 'vacuous' in l or 'harness-build' in l:
                print(pid, 'HARD ERROR', l.strip()[:200]); continue
            bad[max(idx, 0)] = l.strip()[:120]
        elif l.startswith('VIOLATION'):
            viol += 1
    print(pid, 'obligations', len(obs), 'seen', idx + 1, 'walls', {k: round(v) for k, v in walls.items()}, 'viol', viol)
    for i, why in bad.items():
        if i >= len(obs): continue
        o = obs[i]
        print('   reduce', pid, i, o['entry'], json.dumps(o.get('thorough', {}).get('params')), '->', json.dumps(o['quick'].get('params')), '|', why)
        if apply:
            t = dict(o['quick'])
            o['thorough'] = t
            note = "thorough bound of obligation %d (%s %s) did not finish within the calibration cap and is equal to the quick bound" % (i, o['entry'], json.dumps(o['quick'].get('params')))
            c.setdefault('outside_claim', [])
            if note not in c['outside_claim']:
                c['outside_claim'].append(note)
    if apply and bad:
        json.dump(d, open(pf, 'w'), indent=1)
