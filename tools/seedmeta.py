#!/usr/bin/env python3
"""tools/seedmeta.py <name> <property> <needs...>: writes seeded/<name>/meta.json
from the verify log of tools/seedverify.sh."""
import json, os, re, sys
name, prop, needs = sys.argv[1], sys.argv[2], " ".join(sys.argv[3:])
d = "/verif/seeded/" + name
log = open(d + "/verify.log").read()
def rc(tag):
    m = re.search(tag + r" exit=(\d+)", log)
    return int(m.group(1)) if m else None
checks = {}
for m in re.finditer(r"check (C\d+) exit=(\d+)", log):
    checks[m.group(1)] = int(m.group(2))
viol = re.findall(r"^VIOLATION property=(C\d+) replay=(\S+)", log, re.M)
meta = {
    "name": name,
    "breaks_property": prop,
    "needs_to_manifest": needs,
    "source": "written by a fresh sub-agent that saw only the property text and a scratch worktree",
    "files": {"patch": "patch.diff", "demo": open(d + "/demo_path.txt").read().strip() if os.path.exists(d + "/demo_path.txt") else None, "notes": "SEED_NOTES.md"},
    "confirmed_by_me": {
        "ran": "tools/seedverify.sh %s (go build ./...; go test -vet=off -count=1 ./... with the demo excluded; demo with and without the change; then ./check <prop> quick against the patched tree)" % name,
        "suite_exit_with_change": rc("suite"),
        "demo_exit_with_change": rc("demo-with-change"),
        "demo_exit_without_change": rc("demo-without-change"),
    },
    "checks_run": checks,
    "detected_by": sorted({p for p, c in checks.items() if c == 1}),
    "first_counterexample": viol[0][1].replace("/verif/", "") if viol else None,
}
if len(sys.argv) > 3 and os.environ.get("SEED_NOTE"):
    meta["note"] = os.environ["SEED_NOTE"]
json.dump(meta, open(d + "/meta.json", "w"), indent=1)
print(name, "detected_by", meta["detected_by"], "suite", meta["confirmed_by_me"]["suite_exit_with_change"])
