#!/bin/bash
# tools/thorough_sweep.sh [wallcap_s] [ids...]: runs the thorough tier of every
# (or the named) property with a cap on each obligation's wall time, writing
# logs to $OUT (default /tmp/thor2) - used to calibrate the registered thorough
# bounds: an obligation that ends BOUND-EXCEEDED is reduced afterwards.
cd "$(dirname "$0")/.."
cap=${1:-900}; shift || true
OUT=${OUT:-/tmp/thor2}
mkdir -p $OUT/ev $OUT/cex
ids="$@"
[ -z "$ids" ] && ids=$(python3 -c "import json;print(' '.join(c['property_id'] for c in json.load(open('MANIFEST.json'))['checks']))")
./setup.sh >/dev/null
for id in $ids; do
  s=$(date +%s)
  ./check $id thorough -wallcap $cap -evidence $OUT/ev -cexdir $OUT/cex > $OUT/$id.log 2>&1; rc=$?
  echo "$id exit=$rc $(( $(date +%s)-s ))s $(grep -a -c '^VIOLATION' $OUT/$id.log) viol $(grep -a -c '^ERROR' $OUT/$id.log) err $(grep -a -c 'BOUND-EXCEEDED' $OUT/$id.log) bound"
done
