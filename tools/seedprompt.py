#!/usr/bin/env python3
"""Prints the prompt handed to a fresh sub-agent that is asked to seed a
property-breaking change (the agent sees the property text and a scratch
worktree only, nothing from /verif).  usage: seedprompt.py C07 [variant]"""
import json, sys, os
pid = sys.argv[1]
variant = sys.argv[2] if len(sys.argv) > 2 else "a"
root = os.path.dirname(os.path.dirname(os.path.abspath(__file__)))
p = None
for l in open(os.path.join(root, 'properties.jsonl')):
    r = json.loads(l)
    if r['id'] == pid:
        p = r
wt = "/tmp/wt/%s%s" % (pid, variant)
files = ", ".join(p['anchors'].get('files', []))
hints = {
    "a": "the most subtle boundary-value or arithmetic one",
    "b": "one that needs a multi-step history, an unusual ordering, or a rarely used input feature to show up, and that is located in a different function than the most obvious candidate",
    "c": "one in an error-handling, clean-up, shutdown or retry path, or in a helper the anchored code relies on (a different file than the obvious one if possible), that needs a fault, a cancellation or a rare combination of options at a particular moment to show up",
    "d": "one that only shows with larger or unusual inputs (more items than usual, deeper nesting, repeated or empty elements, values near a limit) or that needs two features to be used together",
}
hint = hints.get(variant[0], hints["b"])
tried = ""
tf = os.path.join(root, 'seeded', 'tried.json')
if os.path.exists(tf):
    t = json.load(open(tf)).get(pid, [])
    if t:
        tried = "\nIdeas that were already used and must NOT be repeated (pick something else, in a different function): " + "; ".join(t) + "."
print(f"""You are working on a scratch git worktree of the Go repository ipfs/go-graphsync at {wt} (your own private copy; work ONLY inside {wt}; never touch /repo or /verif, never read anything under /verif).

Shell environment for every command (no network is available, nothing can be downloaded):
  export GOFLAGS=-mod=mod GOPROXY=off GOTOOLCHAIN=local PATH=/opt/veriftools/go1.26.8/bin:$PATH
The existing test suite is run with:  cd {wt} && go test -vet=off -count=1 -timeout 25m ./...   (takes well under a minute; all tests pass on the unchanged tree).

Here is a semantic property that go-graphsync is supposed to satisfy:

  Title: {p['title']}
  Statement: {p['statement']}
  Quantified over: {p['quantifier']['text']}
  Code it is anchored in: {files}

Your task: produce ONE realistic change to the non-test source code of go-graphsync (the kind of slip a maintainer could make in a refactoring or an optimisation: an off-by-one, a swapped comparison, a dropped or misplaced statement, a wrong variable, a missing case, a lost update, a check moved before/after another step) that BREAKS this property, while
  (1) the repository still compiles,
  (2) the ENTIRE existing test suite still passes unedited (run it; if a test fails, pick a different change), and
  (3) the breakage needs something specific to manifest — a particular interleaving, a fault at a particular point, a multi-step sequence of operations, an unusual/boundary input, or two cooperating sites that each look fine alone — NOT something that ordinary use would expose at once.
Variant hint: this is variant "{variant}"; if you can think of several candidate changes, prefer {hint}.{tried}
Do not change test files, do not change exported API signatures, do not add build tags. Keep the change small (ideally < 15 changed lines, in one or two files).

Also write a demonstration: a NEW Go test file (name it zz_seed_demo_test.go in the relevant package directory) that FAILS with your change and PASSES on the unchanged code. Verify both: run it with your change applied (must fail); then save the source change with `git diff > {wt}/seed.patch` (source files only, the untracked demo test is not in it), undo it with `git apply -R {wt}/seed.patch`, run the demo again (must pass), then re-apply with `git apply {wt}/seed.patch`. Do NOT use `git stash`, `git commit`, `git checkout` of branches or any other command that touches shared repository state (other worktrees share it).

Deliverables (leave them in the worktree, uncommitted):
  - the source change applied in the working tree;
  - the demo test file;
  - a file {wt}/SEED_NOTES.md saying: which file/function you changed and how, why it breaks the property, what specific condition it needs to manifest, the exact commands you ran and their outcomes (suite passes with change; demo fails with change; demo passes without).
Finally reply with a short summary (changed file, the idea, what it needs to manifest, and confirmation of the three runs). Clean the go build cache of nothing; do not leave background processes running.""")
