#!/bin/bash
# tools/runall.sh [tier]: runs every claimed check once and prints exit codes.
cd "$(dirname "$0")/.."
tier=${1:-quick}
for id in $(python3 -c "import json;print(' '.join(c['property_id'] for c in json.load(open('MANIFEST.json'))['checks']))"); do
  s=$(date +%s)
  ./check $id $tier > /tmp/runall_$id.log 2>&1; rc=$?
  e=$(date +%s)
  echo "$id exit=$rc $((e-s))s $(grep -c '^KNOWN-FINDING' /tmp/runall_$id.log) known $(grep -c '^VIOLATION' /tmp/runall_$id.log) viol"
done
