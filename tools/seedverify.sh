#!/bin/bash
# tools/seedverify.sh <name e.g. C13a> <tier> <prop> [<prop>...]
# 1. confirms in the scratch worktree /tmp/wt/<name> that the seeded change
#    compiles, passes the existing suite, and that its demo test fails with the
#    change and passes without it;
# 2. stores patch.diff + demo under /verif/seeded/<name>/;
# 3. applies the patch to /repo, runs the named checks, and reverts /repo.
set -u
name="$1"; tier="$2"; shift 2
wt=/tmp/wt/$name
out=/verif/seeded/$name
. /verif/env.sh
mkdir -p "$out"
log="$out/verify.log"
: > "$log"
cd "$wt" || exit 2
demo=$(git status --porcelain | awk '/^\?\?/ {print $2}' | grep 'zz_seed_demo_test.go' | head -1)
git diff > "$out/patch.diff"
if [ ! -s "$out/patch.diff" ]; then
  if [ -s "$wt/seed.patch" ]; then cp "$wt/seed.patch" "$out/patch.diff"; git apply "$out/patch.diff" || true; fi
fi
[ -n "$demo" ] && cp "$wt/$demo" "$out/$(basename "$demo")" && echo "$demo" > "$out/demo_path.txt"
cp "$wt/SEED_NOTES.md" "$out/SEED_NOTES.md" 2>/dev/null
demodir=$(dirname "$demo")
echo "== build with change" | tee -a "$log"
go build ./... >>"$log" 2>&1 && echo "build ok" | tee -a "$log"
echo "== suite with change (demo excluded)" | tee -a "$log"
go test -vet=off -count=1 -timeout 25m -skip '^TestSeedDemo|^TestZZSeed|^TestSeed' ./... > "$out/suite.log" 2>&1; rc=$?
grep -v '^ok\|no test files' "$out/suite.log" | grep -- '^--- FAIL\|^FAIL' | head -20 | tee -a "$log"
if [ $rc -ne 0 ]; then
  # two tests of the suite are timing-sensitive under load on the unchanged
  # tree as well (DESIGN.md 0.4): a failing package is re-run alone, twice
  pk=$(grep '^FAIL\s' "$out/suite.log" | awk '{print $2}' | sort -u | sed 's#github.com/ipfs/go-graphsync#.#')
  if [ -n "$pk" ]; then
    echo "first suite run exit=$rc; re-running alone: $pk" | tee -a "$log"
    go test -vet=off -count=2 -timeout 25m -skip '^TestSeedDemo|^TestZZSeed|^TestSeed' $pk > "$out/suite_retry.log" 2>&1; rc=$?
  fi
fi
echo "suite exit=$rc" | tee -a "$log"
echo "== demo with change (must fail)" | tee -a "$log"
go test -vet=off -count=1 -timeout 10m -run "TestSeedDemo|TestZZSeed|TestSeed" ./$demodir/ > "$out/demo_with.log" 2>&1; rcw=$?
echo "demo-with-change exit=$rcw" | tee -a "$log"
git apply -R "$out/patch.diff"
echo "== demo without change (must pass)" | tee -a "$log"
go test -vet=off -count=1 -timeout 10m -run "TestSeedDemo|TestZZSeed|TestSeed" ./$demodir/ > "$out/demo_without.log" 2>&1; rco=$?
echo "demo-without-change exit=$rco" | tee -a "$log"
git apply "$out/patch.diff"
if [ $rc -ne 0 ] || [ $rcw -eq 0 ] || [ $rco -ne 0 ]; then echo "SEED-INVALID" | tee -a "$log"; fi
# run the checks against the patched tree (the scratch worktree holds exactly
# /repo's HEAD plus the patch; -repo points the engine and the native replay at
# it, which lets several seeds be checked in parallel without touching /repo).
# SEED_ON_REPO=1 applies the patch to /repo itself instead.
cd /verif
if [ "${SEED_ON_REPO:-0}" = 1 ]; then
  if ! git -C /repo diff --quiet; then echo "/repo dirty, abort" | tee -a "$log"; exit 2; fi
  git -C /repo apply "$out/patch.diff" || { echo "patch does not apply to /repo" | tee -a "$log"; exit 2; }
  target=/repo
else
  target="$wt"
fi
for p in "$@"; do
  echo "== check $p $tier on patched tree $target" | tee -a "$log"
  mkdir -p /tmp/seed-ev/$name
  ./check "$p" "$tier" -repo "$target" -evidence /tmp/seed-ev/$name -cexdir "$out/cex" > "$out/check_$p.log" 2>&1; c=$?
  grep -E "^VIOLATION|^ERROR|^KNOWN" "$out/check_$p.log" | head -5 | tee -a "$log"
  echo "check $p exit=$c" | tee -a "$log"
done
if [ "${SEED_ON_REPO:-0}" = 1 ]; then
  git -C /repo checkout -- .
  git -C /repo status --short | grep -v testplans | tee -a "$log"
fi
