#!/usr/bin/env python3
"""Regenerates /verif/MANIFEST.json from harness/props.json (claimed checks)
and harness/not_applicable.json (reasons for unclaimed properties)."""
import json, os, glob
root = os.path.dirname(os.path.dirname(os.path.abspath(__file__)))
props = {}
for f in sorted(glob.glob(os.path.join(root, 'harness/props.d/*.json'))):
    props.update(json.load(open(f)))
na = json.load(open(os.path.join(root, 'harness/not_applicable.json')))
ids = [json.loads(l)['id'] for l in open(os.path.join(root, 'properties.jsonl'))]
checks, not_app = [], []
for i in ids:
    if i in props and props[i].get('obligations'):
        p = props[i]
        checks.append({
            "property_id": i,
            "quick_cmd": "./check %s quick" % i,
            "thorough_cmd": "./check %s thorough" % i,
            "evidence_file": "/verif/evidence/%s.json" % i,
            "replay_cmd_template": "./check %s --replay {path}" % i,
            "engine": "gosym",
            "level_claimed": {"category": "model_checking", "text": p["level_text"], "design_ref": p.get("design_ref", "DESIGN.md section 4")},
            "level_note": p["level_note"],
            "technique": p["technique"],
        })
    else:
        not_app.append({"property_id": i, "reason": na.get(i, "check not yet built in this session (engine and harnesses under construction)")})
m = {
    "version": 1,
    "setup_cmd": "./setup.sh",
    "hooks": {
        "guard": "verif",
        "enable": "no source hooks are needed: harnesses and the verifrt runtime are injected as virtual files through go/packages Overlay (engine) and go test -overlay (native replay); the build tag verif is reserved for future add-only hooks",
        "baseline_off_cmd": "cd /repo && go test -vet=off -count=1 -timeout 25m ./...",
        "source_commits": [],
        "add_only": True,
    },
    "engines": [{"name": "gosym", "path": "engine", "serves_properties": [c["property_id"] for c in checks],
                 "kind_free_text": "bounded symbolic executor for Go SSA (fork of x/tools go/ssa/interp v0.50.0): symbolic integers/booleans as SMT terms, z3 over a pipe deciding every symbolic branch and assertion, DART-style replay exploration of all paths within bounds, explicit goroutine scheduler, native replay of counterexamples via go test -overlay"}],
    "checks": checks,
    "not_applicable": not_app,
    "notes": "All checks: exit 0 = held on every explored path within bounds; exit 1 + VIOLATION line = counterexample (replayed natively); exit 2 = inconclusive (unsupported operation, bound exceeded, solver unknown, vacuity) — never reported as held. See DESIGN.md.",
}
json.dump(m, open(os.path.join(root, 'MANIFEST.json'), 'w'), indent=1)
print("checks:", len(checks), "not_applicable:", len(not_app))
