#!/bin/bash
# tools/reverify_seeds.sh [name...]: re-applies every kept seeded change to a
# fresh worktree of /repo's HEAD and re-runs the checks that are recorded as
# detecting it (meta.json detected_by); writes seeded/SUMMARY.txt.
cd "$(dirname "$0")/.."
. ./env.sh
names="$@"
[ -z "$names" ] && names=$(ls seeded | grep -v SUMMARY)
: > seeded/SUMMARY.txt
for n in $names; do
  d=seeded/$n
  [ -f $d/meta.json ] || continue
  props=$(python3 -c "import json;m=json.load(open('$d/meta.json'));print(' '.join(m.get('detected_by') or []))")
  if [ -z "$props" ]; then echo "$n: not kept as a seed ($(python3 -c "import json;print(json.load(open('$d/meta.json')).get('status',''))"))" >> seeded/SUMMARY.txt; continue; fi
  wt=/tmp/wt/rv_$n
  git -C /repo worktree remove --force $wt 2>/dev/null
  git -C /repo worktree add --detach $wt HEAD >/dev/null 2>&1
  if ! git -C $wt apply $PWD/$d/patch.diff 2>/dev/null; then echo "$n: patch no longer applies to HEAD" >> seeded/SUMMARY.txt; git -C /repo worktree remove --force $wt; continue; fi
  line="$n:"
  for p in $props; do
    ./check $p quick -repo $wt -evidence /tmp/seed-ev/$n -cexdir /tmp/seed-cex/$n > /tmp/rv_${n}_$p.log 2>&1; rc=$?
    line="$line $p exit=$rc ($(grep -c '^VIOLATION' /tmp/rv_${n}_$p.log) violations)"
  done
  echo "$line" >> seeded/SUMMARY.txt
  git -C /repo worktree remove --force $wt
done
cat seeded/SUMMARY.txt
