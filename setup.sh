#!/bin/sh
# Builds the gosym engine offline from /verif/engine.
set -e
cd "$(dirname "$0")"
. ./env.sh
mkdir -p bin evidence
(cd engine && go build -o ../bin/gosym ./cmd/gosym)
echo "setup ok"
