// verif:dir zz_verif/tq
//
// Harness group tq: the real taskqueue.WorkerTaskQueue (worker loop, work
// signal, thaw ticker) over the real go-peertaskqueue, with a stub executor
// whose task duration is a harness decision.
package tq

import (
	"context"
	"fmt"

	"github.com/ipfs/go-peertaskqueue"
	"github.com/ipfs/go-peertaskqueue/peertask"
	"github.com/libp2p/go-libp2p/core/peer"

	"github.com/ipfs/go-graphsync/internal/verifrt"
	"github.com/ipfs/go-graphsync/taskqueue"
	"github.com/ipfs/go-graphsync/zz_verif/kit"
)

type exec struct {
	tq       *taskqueue.WorkerTaskQueue
	running  map[peer.ID]int
	total    int
	maxTotal int
	maxPeer  int
	runs     map[int]int // topic -> number of executions
	gates    map[int]*kit.Gate
	started  []int
	order    []int
}

func (x *exec) ExecuteTask(ctx context.Context, p peer.ID, task *peertask.Task) bool {
	t := task.Topic.(int)
	x.running[p]++
	x.total++
	if x.total > x.maxTotal {
		x.maxTotal = x.total
	}
	if x.running[p] > x.maxPeer {
		x.maxPeer = x.running[p]
	}
	x.runs[t]++
	x.started = append(x.started, t)
	g := x.gates[t]
	if g == nil {
		g = kit.NewGate()
		x.gates[t] = g
	}
	g.Wait()
	x.running[p]--
	x.total--
	x.order = append(x.order, t)
	x.tq.TaskDone(p, task)
	return false
}

// VerifTQ_Limits (C21): never more tasks run at once than there are workers,
// never more for one peer than the per-peer maximum when set, and every pushed
// task that is not removed runs exactly once, whatever the arrival pattern,
// the priorities and the task durations.
func VerifTQ_Limits() {
	verifrt.SetNativeQuiesceMs(250)
	workers := 1 + verifrt.Choose("workers", verifrt.Param("WORKERS", 2))
	perPeer := verifrt.Choose("per-peer-max", verifrt.Param("PERPEER", 2)+1) // 0 = unlimited
	ntasks := verifrt.Param("TASKS", 3)
	npeers := verifrt.Param("PEERS", 2)
	steps := verifrt.Param("STEPS", 5)
	ctx, cancel := context.WithCancel(context.Background())
	defer cancel()
	var opts []peertaskqueue.Option
	if perPeer > 0 {
		opts = append(opts, peertaskqueue.MaxOutstandingWorkPerPeer(perPeer))
	}
	q := taskqueue.NewTaskQueue(ctx, opts...)
	x := &exec{tq: q, running: map[peer.ID]int{}, runs: map[int]int{}, gates: map[int]*kit.Gate{}}
	q.Startup(uint64(workers), x)
	peers := []peer.ID{"peerA", "peerB", "peerC"}[:npeers]
	pushed := 0
	owner := map[int]peer.ID{}
	removed := map[int]bool{}
	finished := map[int]bool{}
	desc := ""
	for s := 0; s < steps; s++ {
		switch verifrt.Choose("step", 4) {
		case 0: // a request arrives
			if pushed >= ntasks {
				verifrt.Assume(false)
			}
			p := peers[verifrt.Choose("peer", npeers)]
			prio := verifrt.Int("priority")
			verifrt.Assume(prio >= 0 && prio < 1000)
			q.PushTask(p, peertask.Task{Topic: pushed, Priority: prio, Work: 1})
			owner[pushed] = p
			desc += fmt.Sprintf("push%d@%s ", pushed, p)
			pushed++
		case 1: // a running task finishes
			var cand []int
			for _, t := range x.started {
				if !finished[t] {
					cand = append(cand, t)
				}
			}
			if len(cand) == 0 {
				verifrt.Assume(false)
			}
			t := cand[verifrt.Choose("which", len(cand))]
			finished[t] = true
			x.gates[t].Open()
			desc += fmt.Sprintf("finish%d ", t)
		case 2: // a queued request is cancelled
			var cand []int
			for t := 0; t < pushed; t++ {
				if x.runs[t] == 0 && !removed[t] {
					cand = append(cand, t)
				}
			}
			if len(cand) == 0 {
				verifrt.Assume(false)
			}
			t := cand[verifrt.Choose("which", len(cand))]
			q.Remove(t, owner[t])
			removed[t] = true
			desc += fmt.Sprintf("remove%d ", t)
		case 3:
			kit.Drain()
			desc += "drain "
		}
		kit.Drain()
		verifrt.Assert(x.total <= workers, "C21 more tasks running at once than there are workers")
		if perPeer > 0 {
			for _, p := range peers {
				verifrt.Assert(x.running[p] <= perPeer, "C21 more tasks of one peer running at once than the per-peer maximum")
			}
		}
		// work conservation: a worker is idle only if nothing may start
		if x.total < workers {
			for t := 0; t < pushed; t++ {
				if x.runs[t] == 0 && !removed[t] {
					p := owner[t]
					blockedByPeer := perPeer > 0 && x.running[p] >= perPeer
					verifrt.Assert(blockedByPeer, "C21 a queued task is not started although a worker is idle and its peer is below its limit")
				}
			}
		}
	}
	// let everything finish
	for round := 0; round < ntasks+1; round++ {
		for _, t := range x.started {
			if !finished[t] {
				finished[t] = true
				x.gates[t].Open()
			}
		}
		kit.Drain()
	}
	verifrt.Event(desc)
	verifrt.Eventf("workers=%d perpeer=%d maxTotal=%d maxPeer=%d runs=%v", workers, perPeer, x.maxTotal, x.maxPeer, x.runs)
	for t := 0; t < pushed; t++ {
		if removed[t] {
			verifrt.Assert(x.runs[t] == 0, "C21 a removed task was executed")
		} else {
			verifrt.Assert(x.runs[t] == 1, "C21 a queued task that was not cancelled was not executed exactly once")
			verifrt.Cover("task-executed")
		}
	}
	st := q.Stats()
	verifrt.Assert(st.Active == 0 && st.Pending == 0, "C21 work queue not empty after every task ended")
	verifrt.Reached("end-tq")
}
