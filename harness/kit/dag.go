// verif:dir zz_verif/kit
package kit

import (
	"bytes"
	"errors"
	"io"

	"github.com/ipld/go-ipld-prime"
	"github.com/ipld/go-ipld-prime/codec"
	"github.com/ipld/go-ipld-prime/datamodel"
	"github.com/ipld/go-ipld-prime/fluent"
	"github.com/ipld/go-ipld-prime/linking"
	cidlink "github.com/ipld/go-ipld-prime/linking/cid"
	"github.com/ipld/go-ipld-prime/node/basicnode"
	"github.com/ipld/go-ipld-prime/traversal/selector"
	"github.com/ipld/go-ipld-prime/traversal/selector/builder"
)

// LinkIndex returns i for Link(i).
func LinkIndex(l ipld.Link) int {
	h := l.(cidlink.Link).Cid.Hash()
	return int(h[len(h)-1])
}

// DAG is a table of blocks: block i decodes to Nodes[i]; its bytes are {i}.
// Shape describes, per block, the indices of the blocks it links to (in map
// order); Depth[i][j] > 0 nests the j-th link that many inline maps deep.
type DAG struct {
	Nodes []datamodel.Node
	Kids  [][]int
	Nest  [][]int
}

// LinkPath returns the path of the j-th link of block i given the path at
// which block i was loaded.
func (d *DAG) LinkPath(parent string, i, j int) string {
	p := parent
	add := func(seg string) {
		if p == "" {
			p = seg
		} else {
			p += "/" + seg
		}
	}
	add(string(rune('a' + j)))
	if d.Nest != nil && d.Nest[i] != nil {
		for l := 0; l < d.Nest[i][j]; l++ {
			add("n")
		}
	}
	return p
}

// BuildDAG builds the table from a child list.  nest[i][j] (optional) is the
// number of inline map levels between block i and its j-th link.
func BuildDAG(kids [][]int, nest [][]int) *DAG {
	d := &DAG{Nodes: make([]datamodel.Node, len(kids)), Kids: kids, Nest: nest}
	for i := len(kids) - 1; i >= 0; i-- {
		i := i
		d.Nodes[i] = fluent.MustBuildMap(basicnode.Prototype.Map, int64(len(kids[i])+1), func(na fluent.MapAssembler) {
			na.AssembleEntry("v").AssignInt(int64(i))
			for j, k := range kids[i] {
				j, k := j, k
				lvl := 0
				if nest != nil && nest[i] != nil {
					lvl = nest[i][j]
				}
				name := string(rune('a' + j))
				var asm func(a fluent.NodeAssembler, lvl int)
				asm = func(a fluent.NodeAssembler, lvl int) {
					if lvl == 0 {
						a.AssignLink(Link(k))
						return
					}
					a.CreateMap(1, func(m fluent.MapAssembler) {
						asm(m.AssembleEntry("n"), lvl-1)
					})
				}
				asm(na.AssembleEntry(name), lvl)
			}
		})
	}
	return d
}

// Chain builds k blocks, block i linking to block i+1.
func Chain(k int) *DAG {
	kids := make([][]int, k)
	for i := 0; i+1 < k; i++ {
		kids[i] = []int{i + 1}
	}
	return BuildDAG(kids, nil)
}

// Tree builds a complete binary tree with k blocks (heap numbering).
func Tree(k int) *DAG {
	kids := make([][]int, k)
	for i := 0; i < k; i++ {
		if 2*i+1 < k {
			kids[i] = append(kids[i], 2*i+1)
		}
		if 2*i+2 < k {
			kids[i] = append(kids[i], 2*i+2)
		}
	}
	return BuildDAG(kids, nil)
}

// Store is a block store over a DAG table with per-block presence, optional
// per-load callbacks (gates, panics) and a log of reads and writes.
type Store struct {
	D       *DAG
	Has     []bool
	OnRead  func(i int)
	// OnDecode/OnWrite/OnCommit: called with the block index before the block
	// is decoded / when a write is opened (index -1) / when it is committed
	OnDecode func(i int)
	OnWrite  func()
	OnCommit func(i int)
	Reads   []int
	Writes  []int
	Commits []int
	// EmptyBlock: index of a block whose stored bytes are empty (zero-length
	// block content), -1 for none
	EmptyBlock int
}

func NewStore(d *DAG, has []bool) *Store { return &Store{D: d, Has: has, EmptyBlock: -1} }

var ErrNotFound = errors.New("kit store: block not found")

// LinkSystem returns a link system over the store: table decoder, trusted
// storage (no hashing), explicit reads/writes.
func (s *Store) LinkSystem() ipld.LinkSystem {
	ls := cidlink.DefaultLinkSystem()
	ls.TrustedStorage = true
	ls.DecoderChooser = func(ipld.Link) (codec.Decoder, error) {
		return func(na datamodel.NodeAssembler, r io.Reader) error {
			b, err := io.ReadAll(r)
			if err != nil {
				return err
			}
			if len(b) == 0 && s.EmptyBlock >= 0 {
				if s.OnDecode != nil {
					s.OnDecode(s.EmptyBlock)
				}
				return na.AssignNode(s.D.Nodes[s.EmptyBlock])
			}
			if len(b) != 1 || int(b[0]) >= len(s.D.Nodes) {
				return errors.New("table decoder: unknown block")
			}
			if s.OnDecode != nil {
				s.OnDecode(int(b[0]))
			}
			return na.AssignNode(s.D.Nodes[b[0]])
		}, nil
	}
	ls.StorageReadOpener = func(_ linking.LinkContext, l ipld.Link) (io.Reader, error) {
		i := LinkIndex(l)
		if s.OnRead != nil {
			s.OnRead(i)
		}
		s.Reads = append(s.Reads, i)
		if i >= len(s.Has) || !s.Has[i] {
			return nil, ErrNotFound
		}
		if i == s.EmptyBlock {
			return bytes.NewBuffer([]byte{}), nil
		}
		return bytes.NewBuffer([]byte{byte(i)}), nil
	}
	ls.StorageWriteOpener = func(_ linking.LinkContext) (io.Writer, linking.BlockWriteCommitter, error) {
		var buf bytes.Buffer
		if s.OnWrite != nil {
			s.OnWrite()
		}
		return &buf, func(l ipld.Link) error {
			i := LinkIndex(l)
			if s.OnCommit != nil {
				s.OnCommit(i)
			}
			s.Commits = append(s.Commits, i)
			b := buf.Bytes()
			if len(b) == 1 {
				s.Writes = append(s.Writes, int(b[0]))
			} else if len(b) == 0 && i == s.EmptyBlock {
				s.Writes = append(s.Writes, i)
			} else {
				s.Writes = append(s.Writes, -1)
			}
			for len(s.Has) <= i {
				s.Has = append(s.Has, false)
			}
			s.Has[i] = true
			return nil
		}, nil
	}
	return ls
}

func Chooser(ipld.Link, linking.LinkContext) (datamodel.NodePrototype, error) {
	return basicnode.Prototype.Any, nil
}

func AllSelector() datamodel.Node {
	ssb := builder.NewSelectorSpecBuilder(basicnode.Prototype.Any)
	return ssb.ExploreRecursive(selector.RecursionLimitDepth(10), ssb.ExploreAll(ssb.ExploreRecursiveEdge())).Node()
}

// ChooseDAG enumerates (by harness choices made through choose) the ordered
// DAGs with n blocks: block i>0 hangs below an earlier block; each link sits
// 0..maxNest inline map levels below its block; optionally one extra edge
// repeats an existing link (shared sub-DAG).  choose(name, k) must return a
// value in [0,k).
func ChooseDAG(n, maxNest int, shared bool, choose func(string, int) int) *DAG {
	kids := make([][]int, n)
	nest := make([][]int, n)
	for i := 1; i < n; i++ {
		par := 0
		if i > 1 {
			par = choose("parent", i)
		}
		kids[par] = append(kids[par], i)
		lvl := 0
		if maxNest > 0 {
			lvl = choose("nest", maxNest+1)
		}
		nest[par] = append(nest[par], lvl)
	}
	if shared && n > 1 && choose("shared", 2) == 1 {
		from := choose("shared-from", n)
		to := 1 + choose("shared-to", n-1)
		if to > from { // keep the table acyclic: links go to higher indices
			kids[from] = append(kids[from], to)
			nest[from] = append(nest[from], 0)
		}
	}
	return BuildDAG(kids, nest)
}

// Visit is one link load of a reference traversal.
type Visit struct {
	Link    int
	Present bool
}

// RefTraversal is the reference depth-first explore-all traversal of a DAG
// over a store: every link met is loaded in map order; a missing block is
// reported and its subtree skipped.
func RefTraversal(d *DAG, has func(i int) bool) []Visit {
	var out []Visit
	var visit func(i int)
	visit = func(i int) {
		p := has(i)
		out = append(out, Visit{i, p})
		if !p {
			return
		}
		for _, k := range d.Kids[i] {
			visit(k)
		}
	}
	visit(0)
	return out
}
