// verif:dir zz_verif/kit
package kit

import (
	"bytes"
	"errors"
	"io"

	"github.com/ipld/go-ipld-prime"
	"github.com/ipld/go-ipld-prime/codec"
	"github.com/ipld/go-ipld-prime/datamodel"
	"github.com/ipld/go-ipld-prime/fluent"
	"github.com/ipld/go-ipld-prime/linking"
	cidlink "github.com/ipld/go-ipld-prime/linking/cid"
	"github.com/ipld/go-ipld-prime/node/basicnode"
	"github.com/ipld/go-ipld-prime/traversal/selector"
	"github.com/ipld/go-ipld-prime/traversal/selector/builder"
)

// LinkIndex returns i for Link(i).
func LinkIndex(l ipld.Link) int {
	h := l.(cidlink.Link).Cid.Hash()
	return int(h[len(h)-1])
}

// DAG is a table of blocks: block i decodes to Nodes[i]; its bytes are {i}.
// Shape describes, per block, the indices of the blocks it links to (in map
// order); Depth[i][j] > 0 nests the j-th link that many inline maps deep.
type DAG struct {
	Nodes []datamodel.Node
	Kids  [][]int
}

// BuildDAG builds the table from a child list.  nest[i][j] (optional) is the
// number of inline map levels between block i and its j-th link.
func BuildDAG(kids [][]int, nest [][]int) *DAG {
	d := &DAG{Nodes: make([]datamodel.Node, len(kids)), Kids: kids}
	for i := len(kids) - 1; i >= 0; i-- {
		i := i
		d.Nodes[i] = fluent.MustBuildMap(basicnode.Prototype.Map, int64(len(kids[i])+1), func(na fluent.MapAssembler) {
			na.AssembleEntry("v").AssignInt(int64(i))
			for j, k := range kids[i] {
				j, k := j, k
				lvl := 0
				if nest != nil && nest[i] != nil {
					lvl = nest[i][j]
				}
				name := string(rune('a' + j))
				var asm func(a fluent.NodeAssembler, lvl int)
				asm = func(a fluent.NodeAssembler, lvl int) {
					if lvl == 0 {
						a.AssignLink(Link(k))
						return
					}
					a.CreateMap(1, func(m fluent.MapAssembler) {
						asm(m.AssembleEntry("n"), lvl-1)
					})
				}
				asm(na.AssembleEntry(name), lvl)
			}
		})
	}
	return d
}

// Chain builds k blocks, block i linking to block i+1.
func Chain(k int) *DAG {
	kids := make([][]int, k)
	for i := 0; i+1 < k; i++ {
		kids[i] = []int{i + 1}
	}
	return BuildDAG(kids, nil)
}

// Tree builds a complete binary tree with k blocks (heap numbering).
func Tree(k int) *DAG {
	kids := make([][]int, k)
	for i := 0; i < k; i++ {
		if 2*i+1 < k {
			kids[i] = append(kids[i], 2*i+1)
		}
		if 2*i+2 < k {
			kids[i] = append(kids[i], 2*i+2)
		}
	}
	return BuildDAG(kids, nil)
}

// Store is a block store over a DAG table with per-block presence, optional
// per-load callbacks (gates, panics) and a log of reads and writes.
type Store struct {
	D       *DAG
	Has     []bool
	OnRead  func(i int)
	Reads   []int
	Writes  []int
	Commits []int
}

func NewStore(d *DAG, has []bool) *Store { return &Store{D: d, Has: has} }

var ErrNotFound = errors.New("kit store: block not found")

// LinkSystem returns a link system over the store: table decoder, trusted
// storage (no hashing), explicit reads/writes.
func (s *Store) LinkSystem() ipld.LinkSystem {
	ls := cidlink.DefaultLinkSystem()
	ls.TrustedStorage = true
	ls.DecoderChooser = func(ipld.Link) (codec.Decoder, error) {
		return func(na datamodel.NodeAssembler, r io.Reader) error {
			b, err := io.ReadAll(r)
			if err != nil {
				return err
			}
			if len(b) != 1 || int(b[0]) >= len(s.D.Nodes) {
				return errors.New("table decoder: unknown block")
			}
			return na.AssignNode(s.D.Nodes[b[0]])
		}, nil
	}
	ls.StorageReadOpener = func(_ linking.LinkContext, l ipld.Link) (io.Reader, error) {
		i := LinkIndex(l)
		if s.OnRead != nil {
			s.OnRead(i)
		}
		s.Reads = append(s.Reads, i)
		if i >= len(s.Has) || !s.Has[i] {
			return nil, ErrNotFound
		}
		return bytes.NewBuffer([]byte{byte(i)}), nil
	}
	ls.StorageWriteOpener = func(_ linking.LinkContext) (io.Writer, linking.BlockWriteCommitter, error) {
		var buf bytes.Buffer
		return &buf, func(l ipld.Link) error {
			i := LinkIndex(l)
			s.Commits = append(s.Commits, i)
			b := buf.Bytes()
			if len(b) == 1 {
				s.Writes = append(s.Writes, int(b[0]))
			} else {
				s.Writes = append(s.Writes, -1)
			}
			for len(s.Has) <= i {
				s.Has = append(s.Has, false)
			}
			s.Has[i] = true
			return nil
		}, nil
	}
	return ls
}

func Chooser(ipld.Link, linking.LinkContext) (datamodel.NodePrototype, error) {
	return basicnode.Prototype.Any, nil
}

func AllSelector() datamodel.Node {
	ssb := builder.NewSelectorSpecBuilder(basicnode.Prototype.Any)
	return ssb.ExploreRecursive(selector.RecursionLimitDepth(10), ssb.ExploreAll(ssb.ExploreRecursiveEdge())).Node()
}
