// verif:dir zz_verif/kit
//
// Package kit: pieces shared by the harness groups: link/request-id tables,
// the stub network whose verdicts are solver variables, recording subscribers
// and the assembled real sending stack (ResponseAssembler -> PeerMessageManager
// -> MessageQueue -> publisher -> Allocator).
package kit

import (
	"context"
	"errors"
	"time"

	"github.com/ipfs/go-cid"
	"github.com/ipld/go-ipld-prime"
	"github.com/ipld/go-ipld-prime/datamodel"
	"github.com/ipld/go-ipld-prime/node/basicnode"
	cidlink "github.com/ipld/go-ipld-prime/linking/cid"
	"github.com/libp2p/go-libp2p/core/peer"

	"github.com/ipfs/go-graphsync"
	"github.com/ipfs/go-graphsync/allocator"
	"github.com/ipfs/go-graphsync/internal/verifrt"
	gsmsg "github.com/ipfs/go-graphsync/message"
	"github.com/ipfs/go-graphsync/messagequeue"
	gsnet "github.com/ipfs/go-graphsync/network"
	"github.com/ipfs/go-graphsync/notifications"
	"github.com/ipfs/go-graphsync/peermanager"
	"github.com/ipfs/go-graphsync/responsemanager/responseassembler"
)

func Link(i int) ipld.Link {
	_, c, err := cid.CidFromBytes([]byte{0x01, 0x55, 0x00, 0x01, byte(i)})
	if err != nil {
		panic(err)
	}
	return cidlink.Link{Cid: c}
}

// LinkOf wraps a CID as a link.
func LinkOf(c cid.Cid) ipld.Link { return cidlink.Link{Cid: c} }

// Cid returns the CID of Link(i).
func Cid(i int) cid.Cid { return Link(i).(cidlink.Link).Cid }

// ExtNode is a small extension payload.
func ExtNode() datamodel.Node { return basicnode.NewInt(7) }

// Drain lets every goroutine run until nothing more can happen: every pending
// virtual timer is fired (bounded).
func Drain() {
	settle := func() {
		verifrt.Quiesce()
		for i := 0; i < 8 && verifrt.Tick(); i++ {
			verifrt.Quiesce()
		}
	}
	settle()
	// two rounds of the periodic timers (the task queue's 100 ms thaw ticker:
	// a peer frozen by a task removal is thawed after at most two rounds here)
	for i := 0; i < 2; i++ {
		if !verifrt.TickPeriodic() {
			break
		}
		settle()
	}
}

func ReqID(i int) graphsync.RequestID {
	b := make([]byte, 16)
	b[15] = byte(i + 1)
	id, err := graphsync.ParseRequestID(b)
	if err != nil {
		panic(err)
	}
	return id
}

// ---------------------------------------------------------------------
// stub network

// Gate blocks callers of Wait until Open is called.
type Gate struct {
	ch   chan struct{}
	open bool
}

func NewGate() *Gate { return &Gate{ch: make(chan struct{})} }
func (g *Gate) Wait() { <-g.ch }
func (g *Gate) Open() {
	if !g.open {
		g.open = true
		close(g.ch)
	}
}

// SentMsg is a message handed to the wire together with its destination.
type SentMsg struct {
	To  peer.ID
	Msg gsmsg.GraphSyncMessage
}

type Net struct {
	Sent        []gsmsg.GraphSyncMessage
	SentTo      []SentMsg
	// OnSent, when set, receives every message that left successfully
	OnSent func(to peer.ID, m gsmsg.GraphSyncMessage)
	// SendGate: SendMsg to that peer blocks until the gate is opened
	SendGate map[peer.ID]*Gate
	// Dead: every send to (and every new sender for) that peer fails: the
	// connection timed out for good
	Dead map[peer.ID]bool
	SendCalls   int
	Connects    int
	OpenSenders int
	NoFaults    bool
	MaxFaults   int
	Faults      int
}

func (n *Net) fault(name string) bool {
	if n.NoFaults || n.Faults >= n.MaxFaults {
		return false
	}
	if verifrt.Bool(name) {
		n.Faults++
		return true
	}
	return false
}

func (n *Net) ConnectTo(ctx context.Context, p peer.ID) error {
	n.Connects++
	if n.fault("connect-fails") {
		return errors.New("stub: connect failed")
	}
	return nil
}

func (n *Net) NewMessageSender(ctx context.Context, p peer.ID, o gsnet.MessageSenderOpts) (gsnet.MessageSender, error) {
	if n.Dead[p] {
		return nil, errors.New("stub: peer is gone")
	}
	if n.fault("newsender-fails") {
		return nil, errors.New("stub: no sender")
	}
	n.OpenSenders++
	return &Sender{n: n, p: p}, nil
}

type Sender struct {
	n *Net
	p peer.ID
}

func (s *Sender) SendMsg(ctx context.Context, m gsmsg.GraphSyncMessage) error {
	s.n.SendCalls++
	if g := s.n.SendGate[s.p]; g != nil {
		g.Wait()
	}
	if s.n.Dead[s.p] {
		return errors.New("stub: send timed out, peer is gone")
	}
	if s.n.fault("send-fails") {
		return errors.New("stub: send failed")
	}
	s.n.Sent = append(s.n.Sent, m)
	s.n.SentTo = append(s.n.SentTo, SentMsg{s.p, m})
	if s.n.OnSent != nil {
		s.n.OnSent(s.p, m)
	}
	return nil
}
func (s *Sender) Close() error { s.n.OpenSenders--; return nil }
func (s *Sender) Reset() error { s.n.OpenSenders--; return nil }

// ---------------------------------------------------------------------
// recording subscriber (one per request)

type Note struct {
	Topic messagequeue.Topic
	Name  messagequeue.EventName
	Close bool
}

type Sub struct {
	ID  int
	Log []Note
}

func (s *Sub) OnNext(t notifications.Topic, e notifications.Event) {
	ev := e.(messagequeue.Event)
	s.Log = append(s.Log, Note{Topic: t.(messagequeue.Topic), Name: ev.Name})
}
func (s *Sub) OnClose(t notifications.Topic) {
	s.Log = append(s.Log, Note{Topic: t.(messagequeue.Topic), Close: true})
}

// ---------------------------------------------------------------------
// the stack

type Stack struct {
	Ctx     context.Context
	Cancel  context.CancelFunc
	Net     *Net
	Alloc   *allocator.Allocator
	PMM     *peermanager.PeerMessageManager
	RA      *responseassembler.ResponseAssembler
	Queues  []*messagequeue.MessageQueue
	Exited  []peer.ID
	Retries int
	H       *Handler
	// DeadQueueBuild: a build callback ran on a queue whose run loop had
	// already exited (region of the known finding C16-F1)
	DeadQueueBuild bool
	// OverRelease: a message queue released more bytes than were accounted to
	// its peer at that moment (some reservation was returned twice)
	OverRelease bool
}

func NewStack(total, perPeer uint64, retries int) *Stack {
	ctx, cancel := context.WithCancel(context.Background())
	s := &Stack{Ctx: ctx, Cancel: cancel, Net: &Net{}, Retries: retries}
	s.Alloc = allocator.NewAllocator(total, perPeer)
	s.PMM = peermanager.NewMessageManager(ctx, func(ctx context.Context, p peer.ID, onShutdown func(peer.ID)) peermanager.PeerQueue {
		tq := &tagQ{s: s}
		tq.MessageQueue = messagequeue.New(ctx, p, s.Net, &ledger{s: s}, retries, time.Second, func(p peer.ID) {
			s.Exited = append(s.Exited, p)
			tq.exited = true
			onShutdown(p)
		})
		s.Queues = append(s.Queues, tq.MessageQueue)
		return tq
	})
	s.H = &Handler{ctx: ctx, pmm: s.PMM, attached: map[*messagequeue.Builder]map[graphsync.RequestID]bool{}}
	s.RA = responseassembler.New(ctx, s.H)
	return s
}

// ledger is the real Allocator as the message queues see it, plus a ghost
// check: a release never asks for more than is accounted to the peer (the
// allocator would silently clamp it, hiding a reservation returned twice).
type ledger struct{ s *Stack }

func (l *ledger) AllocateBlockMemory(p peer.ID, amount uint64) <-chan error {
	return l.s.Alloc.AllocateBlockMemory(p, amount)
}
func (l *ledger) ReleasePeerMemory(p peer.ID) error { return l.s.Alloc.ReleasePeerMemory(p) }
func (l *ledger) ReleaseBlockMemory(p peer.ID, amount uint64) error {
	if amount > l.s.Alloc.AllocatedForPeer(p) {
		l.s.OverRelease = true
	}
	return l.s.Alloc.ReleaseBlockMemory(p, amount)
}

// tagQ is the real MessageQueue plus a ghost bit telling whether its run loop
// has exited; a build callback that runs afterwards marks the region of the
// known finding C16-F1.
type tagQ struct {
	*messagequeue.MessageQueue
	s      *Stack
	exited bool
}

func (t *tagQ) AllocateAndBuildMessage(size uint64, fn func(*messagequeue.Builder)) {
	t.MessageQueue.AllocateAndBuildMessage(size, func(b *messagequeue.Builder) {
		if t.exited {
			t.s.DeadQueueBuild = true
		}
		fn(b)
	})
}

// Handler wraps the real PeerMessageManager and records, per message builder,
// which requests attached a subscriber to it (the ghost for C16).
type Handler struct {
	ctx context.Context
	// Dropped: a call returned without the build callback having run while the
	// instance was not shutting down
	Dropped  bool
	pmm      *peermanager.PeerMessageManager
	builders []*messagequeue.Builder
	attached map[*messagequeue.Builder]map[graphsync.RequestID]bool
}

func (h *Handler) AllocateAndBuildMessage(p peer.ID, size uint64, fn func(*messagequeue.Builder)) {
	ran := false
	defer func() {
		// the queue either runs the build callback (on a live or on a failed
		// builder) or the whole instance is shutting down: data handed to it is
		// never dropped without a word
		if !ran && h.ctx != nil && h.ctx.Err() == nil {
			h.Dropped = true
		}
	}()
	h.pmm.AllocateAndBuildMessage(p, size, func(b *messagequeue.Builder) {
		ran = true
		fn(b)
		if h.attached[b] == nil {
			h.attached[b] = map[graphsync.RequestID]bool{}
			h.builders = append(h.builders, b)
		}
		for id := range b.Subscribers() {
			h.attached[b][id] = true
		}
	})
}

// attachments returns the number of distinct messages request id attached to
// (all of them, and those that are not empty: an empty builder is never a
// message).
func (h *Handler) Attachments(id graphsync.RequestID) (all, nonEmpty int) {
	for _, b := range h.builders {
		if h.attached[b][id] {
			all++
			if !b.Empty() {
				nonEmpty++
			}
		}
	}
	return
}

