// verif:dir zz_verif/sel
//
// Harness group sel: the real selectorvalidator (its selector-walking
// selector, built by its init) over go-ipld-prime's real WalkMatching and
// selector parser, on selector trees enumerated exhaustively up to a depth,
// with every recursion limit symbolic.
package sel

import (
	"context"

	"github.com/ipfs/go-cid"
	"github.com/libp2p/go-libp2p/core/peer"

	"github.com/ipfs/go-graphsync"
	gsmsg "github.com/ipfs/go-graphsync/message"
	"github.com/ipfs/go-graphsync/responsemanager/hooks"
	"github.com/ipld/go-ipld-prime/datamodel"
	"github.com/ipld/go-ipld-prime/node/basicnode"
	"github.com/ipld/go-ipld-prime/traversal/selector"
	"github.com/ipld/go-ipld-prime/traversal/selector/builder"

	"github.com/ipfs/go-graphsync/internal/verifrt"
	"github.com/ipfs/go-graphsync/selectorvalidator"
)

type gen struct {
	ssb      builder.SelectorSpecBuilder
	nrec     int
	maxRec   int
	allOK    bool // ghost: every recursion so far has a depth limit <= max
	underIA  bool // some recursion lies below an interpret-as clause
	max      int64
	kinds    int
}

const (
	kMatcher = iota
	kAll
	kFields
	kIndex
	kRange
	kUnion
	kInterpretAs
	kRecursive
	kEdge
)

// tree builds a selector spec of at most the given depth.
func (g *gen) tree(depth int, inRec bool, belowIA bool) builder.SelectorSpec {
	ssb := g.ssb
	if depth == 0 {
		if inRec && verifrt.Choose("leaf", 2) == 1 {
			return ssb.ExploreRecursiveEdge()
		}
		return ssb.Matcher()
	}
	n := kRecursive + 1
	if inRec {
		n = kEdge + 1
	}
	if g.nrec >= g.maxRec {
		// no further recursion nodes: drop kRecursive from the menu
		k := verifrt.Choose("kind", n-1)
		if k >= kRecursive {
			k++
		}
		return g.node(k, depth, inRec, belowIA)
	}
	return g.node(verifrt.Choose("kind", n), depth, inRec, belowIA)
}

func (g *gen) node(k int, depth int, inRec bool, belowIA bool) builder.SelectorSpec {
	ssb := g.ssb
	switch k {
	case kMatcher:
		return ssb.Matcher()
	case kAll:
		return ssb.ExploreAll(g.tree(depth-1, inRec, belowIA))
	case kFields:
		nf := 1 + verifrt.Choose("nfields", 2)
		subs := make([]builder.SelectorSpec, nf)
		for i := range subs {
			if i == 0 {
				subs[i] = g.tree(depth-1, inRec, belowIA)
			} else {
				subs[i] = g.tree(0, inRec, belowIA)
			}
		}
		return ssb.ExploreFields(func(efsb builder.ExploreFieldsSpecBuilder) {
			names := []string{"a", "b"}
			for i, s := range subs {
				efsb.Insert(names[i], s)
			}
		})
	case kIndex:
		return ssb.ExploreIndex(1, g.tree(depth-1, inRec, belowIA))
	case kRange:
		return ssb.ExploreRange(0, 2, g.tree(depth-1, inRec, belowIA))
	case kUnion:
		return ssb.ExploreUnion(g.tree(depth-1, inRec, belowIA), g.tree(0, inRec, belowIA))
	case kInterpretAs:
		return ssb.ExploreInterpretAs("adl", g.tree(depth-1, inRec, true))
	case kRecursive:
		g.nrec++
		var limit selector.RecursionLimit
		if verifrt.Choose("limitKind", 2) == 0 {
			limit = selector.RecursionLimitNone()
			g.allOK = false
			verifrt.Cover("recursion-unbounded")
		} else {
			l := verifrt.I64("limit")
			limit = selector.RecursionLimitDepth(l)
			if l > g.max {
				g.allOK = false
				verifrt.Cover("recursion-too-deep")
			} else {
				verifrt.Cover("recursion-within-limit")
			}
		}
		if belowIA {
			g.underIA = true
			verifrt.Cover("recursion-under-interpret-as")
		}
		return ssb.ExploreRecursive(limit, g.tree(depth-1, true, belowIA))
	case kEdge:
		return ssb.ExploreRecursiveEdge()
	}
	panic("bad kind")
}

// VerifSel_Validate: ValidateMaxRecursionDepth(sel, 100) == nil  <=>  every
// recursive exploration in sel has a depth limit <= 100.
func VerifSel_Validate() {
	g := &gen{ssb: builder.NewSelectorSpecBuilder(basicnode.Prototype.Any), maxRec: verifrt.Param("MAXREC", 2), allOK: true, max: 100}
	spec := g.tree(verifrt.Param("DEPTH", 3), false, false)
	var node datamodel.Node = spec.Node()
	// well-formedness is go-ipld-prime's own predicate
	_, perr := selector.ParseSelector(node)
	verifrt.Assume(perr == nil)
	err := selectorvalidator.ValidateMaxRecursionDepth(node, g.max)
	verifrt.Eventf("recursions=%d underIA=%v", g.nrec, g.underIA)
	// the same verdict through the default hook, registered the way impl.New
	// registers it, and the real incoming-request hook registry
	rh := hooks.NewRequestHooks(nil)
	rh.Register(selectorvalidator.SelectorValidator(g.max))
	req := gsmsg.NewRequest(graphsync.RequestID{}, cid.Undef, node, 0)
	res := rh.ProcessRequestHooks(peer.ID("p"), req, context.Background())
	verifrt.Assert(res.IsValidated == (err == nil) && res.Err == nil, "C08 the default request hook does not validate exactly the selectors ValidateMaxRecursionDepth accepts")
	if g.allOK {
		verifrt.Assert(err == nil, "C08 selector whose recursions are all limited to <= 100 was rejected")
		verifrt.Cover("accepted")
	} else {
		verifrt.AssertKF(err != nil, "C08 selector with an unbounded or too-deep recursion passed validation", "C08-F1", g.underIA)
		verifrt.Cover("rejected")
	}
	verifrt.Reached("end-sel")
}

// VerifSel_DeepChain: the same equivalence for a recursion buried under N
// nested explore clauses, for every N up to NEST (the wrapper kinds rotate
// through all / index / fields / interpret-as / range / union from a chosen
// start): the verdict must not depend on how deep the recursion sits.
func VerifSel_DeepChain() {
	ssb := builder.NewSelectorSpecBuilder(basicnode.Prototype.Any)
	nest := verifrt.Choose("nesting", verifrt.Param("NEST", 40)+1)
	start := verifrt.Choose("first-wrapper-kind", 6)
	var limit selector.RecursionLimit
	ok := true
	if verifrt.Choose("limitKind", 2) == 0 {
		limit = selector.RecursionLimitNone()
		ok = false
		verifrt.Cover("recursion-unbounded")
	} else {
		l := verifrt.I64("limit")
		limit = selector.RecursionLimitDepth(l)
		ok = l <= 100
	}
	spec := ssb.ExploreRecursive(limit, ssb.ExploreAll(ssb.ExploreRecursiveEdge()))
	underIA := false
	for i := 0; i < nest; i++ {
		switch (start + i) % 6 {
		case 0:
			spec = ssb.ExploreAll(spec)
		case 1:
			spec = ssb.ExploreIndex(int64(i), spec)
		case 2:
			inner := spec
			spec = ssb.ExploreFields(func(efsb builder.ExploreFieldsSpecBuilder) {
				efsb.Insert("x", ssb.Matcher())
				efsb.Insert("y", inner)
			})
		case 3:
			spec = ssb.ExploreInterpretAs("adl", spec)
			underIA = true
		case 4:
			spec = ssb.ExploreRange(0, 3, spec)
		case 5:
			spec = ssb.ExploreUnion(ssb.Matcher(), spec)
		}
	}
	var node datamodel.Node = spec.Node()
	_, perr := selector.ParseSelector(node)
	verifrt.Assume(perr == nil)
	err := selectorvalidator.ValidateMaxRecursionDepth(node, 100)
	verifrt.Eventf("nesting=%d start=%d err=%v", nest, start, err)
	if nest >= 32 {
		verifrt.Cover("nesting-32-or-more")
	}
	if ok {
		verifrt.Assert(err == nil, "C08 selector whose recursions are all limited to <= 100 was rejected")
		verifrt.Cover("accepted")
	} else {
		verifrt.AssertKF(err != nil, "C08 selector with an unbounded or too-deep recursion passed validation", "C08-F1", underIA)
		verifrt.Cover("rejected")
	}
	verifrt.Reached("end-deepchain")
}
