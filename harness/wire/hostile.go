// verif:dir message/v2
package v2

import (
	"bytes"
	"encoding/binary"

	blocks "github.com/ipfs/go-block-format"
	"github.com/ipfs/go-cid"
	"github.com/ipld/go-ipld-prime/datamodel"
	"github.com/ipld/go-ipld-prime/node/basicnode"

	"github.com/ipfs/go-graphsync"
	"github.com/ipfs/go-graphsync/internal/verifrt"
	"github.com/ipfs/go-graphsync/message"
	"github.com/ipfs/go-graphsync/message/ipldbind"
)

type ipldbindRoot = ipldbind.GraphSyncMessageRoot

func hostileID() []byte {
	lens := []int{0, 15, 16, 17}
	n := lens[verifrt.Choose("idlen", len(lens))]
	b := make([]byte, n)
	for i := range b {
		b[i] = byte(0xc0 + i)
	}
	return b
}

func hostileExts() *ipldbind.GraphSyncExtensions {
	switch verifrt.Choose("exts", 3) {
	case 0:
		return nil
	case 1:
		// keys and values out of step, nil value pointer
		return &ipldbind.GraphSyncExtensions{Keys: []string{"a", "b"}, Values: map[string]*datamodel.Node{"a": nil}}
	}
	var n datamodel.Node = basicnode.NewInt(1)
	return &ipldbind.GraphSyncExtensions{Keys: nil, Values: map[string]*datamodel.Node{"z": &n}}
}

func hostileRoot() *ipldbind.GraphSyncMessageRoot {
	if verifrt.Choose("gs2", 2) == 0 {
		return &ipldbind.GraphSyncMessageRoot{}
	}
	g := &ipldbind.GraphSyncMessage{}
	// SECTION restricts which list varies (the three lists are decoded by
	// independent loops): 0 all, 1 requests, 2 responses, 3 blocks.
	section := verifrt.Param("SECTION", 0)
	pick := func(name string, sec int, max int) int {
		if section != 0 && section != sec {
			return -1
		}
		return verifrt.Choose(name, max+2) - 1 // -1 = nil list
	}
	nreq := pick("nreq", 1, verifrt.Param("REQS", 1))
	if nreq >= 0 {
		l := make([]ipldbind.GraphSyncRequest, nreq)
		for i := range l {
			types := []graphsync.RequestType{graphsync.RequestTypeNew, graphsync.RequestTypeCancel, graphsync.RequestTypeUpdate, "Bogus", ""}
			l[i].Id = hostileID()
			l[i].RequestType = types[verifrt.Choose("rtype", len(types))]
			if verifrt.Choose("prio", 2) == 1 {
				p := graphsync.Priority(verifrt.I32("priority"))
				l[i].Priority = &p
			}
			if verifrt.Choose("root", 2) == 1 {
				c := cid.Undef
				l[i].Root = &c
			}
			if verifrt.Choose("sel", 2) == 1 {
				var n datamodel.Node
				l[i].Selector = &n // pointer to a nil node
			}
			l[i].Extensions = hostileExts()
		}
		g.Requests = &l
	}
	nresp := pick("nresp", 2, verifrt.Param("RESPS", 1))
	if nresp >= 0 {
		l := make([]ipldbind.GraphSyncResponse, nresp)
		for i := range l {
			l[i].Id = hostileID()
			l[i].Status = graphsync.ResponseStatusCode(verifrt.I32("status"))
			switch verifrt.Choose("md", 3) {
			case 1:
				var md []message.GraphSyncLinkMetadatum
				l[i].Metadata = &md
			case 2:
				md := []message.GraphSyncLinkMetadatum{{Link: cid.Undef, Action: "bogus-action"}}
				l[i].Metadata = &md
			}
			l[i].Extensions = hostileExts()
		}
		g.Responses = &l
	}
	nblk := pick("nblk", 3, verifrt.Param("BLOCKS", 2))
	if nblk >= 0 {
		l := make([]ipldbind.GraphSyncBlock, nblk)
		for i := range l {
			plen := verifrt.Choose("preflen", 6) // 0..4 bytes, 5 = multi-byte varint
			var pref []byte
			if plen == 5 {
				pref = []byte{0x81, 0x00, 0x55, 0x00, 0x01} // non-minimal varint
			} else {
				version := verifrt.U8("version")
				mhlen := verifrt.U8("mhlen")
				verifrt.Assume(version < 0x80 && mhlen < 0x80)
				codecs := []byte{0x55, 0x71, 0x00}
				mhtypes := []byte{0x00, 0x7e}
				full := []byte{version, codecs[verifrt.Choose("codec", len(codecs))], mhtypes[verifrt.Choose("mhtype", len(mhtypes))], mhlen}
				pref = full[:plen]
			}
			l[i].Prefix = pref
			switch verifrt.Choose("data", 3) {
			case 1:
				l[i].Data = []byte{}
			case 2:
				l[i].Data = []byte{7, byte(i)}
			}
		}
		g.Blocks = &l
	}
	return &ipldbind.GraphSyncMessageRoot{Gs2: g}
}


// baseMessage: small well-formed messages whose encodings are mutated.
func baseMessage(i int) message.GraphSyncMessage {
	switch i {
	case 0:
		return message.NewMessage(map[graphsync.RequestID]message.GraphSyncRequest{wrid(1): message.NewCancelRequest(wrid(1))}, nil, nil)
	case 1:
		r := message.NewRequest(wrid(2), wcid(0x71, 1), basicnode.NewString("s"), 7, graphsync.ExtensionData{Name: "e", Data: basicnode.NewInt(3)})
		return message.NewMessage(map[graphsync.RequestID]message.GraphSyncRequest{wrid(2): r}, nil, nil)
	case 2:
		md := []message.GraphSyncLinkMetadatum{{Link: wcid(0x55, 2), Action: graphsync.LinkActionPresent}}
		r := message.NewResponse(wrid(3), graphsync.PartialResponse, md)
		return message.NewMessage(nil, map[graphsync.RequestID]message.GraphSyncResponse{wrid(3): r}, nil)
	default:
		data := []byte{9}
		c, _ := cid.Prefix{Version: 1, Codec: 0x55, MhType: 0x00, MhLength: -1}.Sum(data)
		b, _ := blocks.NewBlockWithCid(data, c)
		return message.NewMessage(nil, nil, map[cid.Cid]blocks.Block{c: b})
	}
}

// VerifWire_HostileBytes (C12): the real stream decoder (msgio varint framing,
// DAG-CBOR tokenizer, bindnode assembly against the message schema, fromIPLD)
// on hostile bytes: encodings of well-formed messages with MUT bytes replaced
// by arbitrary values (solver variables), truncated at every length (with the
// length prefix left alone or corrected), and arbitrary short payloads.  It
// never panics; a message that decodes satisfies the ID and block-key
// invariants.
func VerifWire_HostileBytes() {
	mh := NewMessageHandler()
	var frame []byte
	mode := verifrt.Choose("mutation", 3)
	if only := verifrt.Param("MODE", -1); only >= 0 {
		verifrt.Assume(mode == only)
	}
	switch mode {
	case 0, 1:
		var buf bytes.Buffer
		err := mh.ToNet("p", baseMessage(verifrt.Choose("base", verifrt.Param("BASES", 4))), &buf)
		verifrt.Assert(err == nil, "harness: base message does not encode")
		frame = append([]byte{}, buf.Bytes()...)
		if mode == 0 {
			for k := 0; k < verifrt.Param("MUT", 1); k++ {
				pos := verifrt.Choose("position", len(frame))
				frame[pos] = verifrt.U8("byte")
			}
			verifrt.Cover("mutated")
		} else {
			_, plen := binary.Uvarint(frame)
			cut := plen + verifrt.Choose("cut", len(frame)-plen)
			payload := frame[plen:cut]
			if verifrt.Choose("prefix-corrected", 2) == 1 {
				frame = append(binary.AppendUvarint(nil, uint64(len(payload))), payload...)
			} else {
				frame = frame[:cut]
			}
			verifrt.Cover("truncated")
		}
	case 2:
		n := 1 + verifrt.Choose("payload-length", verifrt.Param("MAXLEN", 3))
		frame = binary.AppendUvarint(nil, uint64(n))
		for i := 0; i < n; i++ {
			frame = append(frame, verifrt.U8("byte"))
		}
		verifrt.Cover("arbitrary")
	}
	m, err := mh.FromNet("p", bytes.NewReader(frame))
	if err != nil {
		verifrt.Cover("hostile-rejected")
		verifrt.Reached("end-hostile-bytes")
		return
	}
	verifrt.Cover("hostile-accepted")
	for _, r := range m.Requests() {
		verifrt.Assert(len(r.ID().Bytes()) == 16, "C12 decoded request ID is not a 16-byte identifier")
		for _, n := range r.ExtensionNames() {
			r.Extension(graphsync.ExtensionName(n))
		}
	}
	for _, r := range m.Responses() {
		verifrt.Assert(len(r.RequestID().Bytes()) == 16, "C12 decoded response ID is not a 16-byte identifier")
		r.Metadata().Iterate(func(cid.Cid, graphsync.LinkAction) {})
		for _, n := range r.ExtensionNames() {
			r.Extension(n)
		}
	}
	for _, b := range m.Blocks() {
		c := b.Cid()
		sum, err := c.Prefix().Sum(b.RawData())
		verifrt.Assert(err == nil && sum == c, "C12 decoded block is not keyed by the CID of its own bytes")
	}
	verifrt.Reached("end-hostile-bytes")
}
