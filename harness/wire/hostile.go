// verif:dir message/v2
package v2

import (
	"github.com/ipfs/go-cid"
	"github.com/ipld/go-ipld-prime/datamodel"
	"github.com/ipld/go-ipld-prime/node/basicnode"

	"github.com/ipfs/go-graphsync"
	"github.com/ipfs/go-graphsync/internal/verifrt"
	"github.com/ipfs/go-graphsync/message"
	"github.com/ipfs/go-graphsync/message/ipldbind"
)

type ipldbindRoot = ipldbind.GraphSyncMessageRoot

func hostileID() []byte {
	lens := []int{0, 15, 16, 17}
	n := lens[verifrt.Choose("idlen", len(lens))]
	b := make([]byte, n)
	for i := range b {
		b[i] = byte(0xc0 + i)
	}
	return b
}

func hostileExts() *ipldbind.GraphSyncExtensions {
	switch verifrt.Choose("exts", 3) {
	case 0:
		return nil
	case 1:
		// keys and values out of step, nil value pointer
		return &ipldbind.GraphSyncExtensions{Keys: []string{"a", "b"}, Values: map[string]*datamodel.Node{"a": nil}}
	}
	var n datamodel.Node = basicnode.NewInt(1)
	return &ipldbind.GraphSyncExtensions{Keys: nil, Values: map[string]*datamodel.Node{"z": &n}}
}

func hostileRoot() *ipldbind.GraphSyncMessageRoot {
	if verifrt.Choose("gs2", 2) == 0 {
		return &ipldbind.GraphSyncMessageRoot{}
	}
	g := &ipldbind.GraphSyncMessage{}
	// SECTION restricts which list varies (the three lists are decoded by
	// independent loops): 0 all, 1 requests, 2 responses, 3 blocks.
	section := verifrt.Param("SECTION", 0)
	pick := func(name string, sec int, max int) int {
		if section != 0 && section != sec {
			return -1
		}
		return verifrt.Choose(name, max+2) - 1 // -1 = nil list
	}
	nreq := pick("nreq", 1, verifrt.Param("REQS", 1))
	if nreq >= 0 {
		l := make([]ipldbind.GraphSyncRequest, nreq)
		for i := range l {
			types := []graphsync.RequestType{graphsync.RequestTypeNew, graphsync.RequestTypeCancel, graphsync.RequestTypeUpdate, "Bogus", ""}
			l[i].Id = hostileID()
			l[i].RequestType = types[verifrt.Choose("rtype", len(types))]
			if verifrt.Choose("prio", 2) == 1 {
				p := graphsync.Priority(verifrt.I32("priority"))
				l[i].Priority = &p
			}
			if verifrt.Choose("root", 2) == 1 {
				c := cid.Undef
				l[i].Root = &c
			}
			if verifrt.Choose("sel", 2) == 1 {
				var n datamodel.Node
				l[i].Selector = &n // pointer to a nil node
			}
			l[i].Extensions = hostileExts()
		}
		g.Requests = &l
	}
	nresp := pick("nresp", 2, verifrt.Param("RESPS", 1))
	if nresp >= 0 {
		l := make([]ipldbind.GraphSyncResponse, nresp)
		for i := range l {
			l[i].Id = hostileID()
			l[i].Status = graphsync.ResponseStatusCode(verifrt.I32("status"))
			switch verifrt.Choose("md", 3) {
			case 1:
				var md []message.GraphSyncLinkMetadatum
				l[i].Metadata = &md
			case 2:
				md := []message.GraphSyncLinkMetadatum{{Link: cid.Undef, Action: "bogus-action"}}
				l[i].Metadata = &md
			}
			l[i].Extensions = hostileExts()
		}
		g.Responses = &l
	}
	nblk := pick("nblk", 3, verifrt.Param("BLOCKS", 2))
	if nblk >= 0 {
		l := make([]ipldbind.GraphSyncBlock, nblk)
		for i := range l {
			plen := verifrt.Choose("preflen", 6) // 0..4 bytes, 5 = multi-byte varint
			var pref []byte
			if plen == 5 {
				pref = []byte{0x81, 0x00, 0x55, 0x00, 0x01} // non-minimal varint
			} else {
				version := verifrt.U8("version")
				mhlen := verifrt.U8("mhlen")
				verifrt.Assume(version < 0x80 && mhlen < 0x80)
				codecs := []byte{0x55, 0x71, 0x00}
				mhtypes := []byte{0x00, 0x7e}
				full := []byte{version, codecs[verifrt.Choose("codec", len(codecs))], mhtypes[verifrt.Choose("mhtype", len(mhtypes))], mhlen}
				pref = full[:plen]
			}
			l[i].Prefix = pref
			switch verifrt.Choose("data", 3) {
			case 1:
				l[i].Data = []byte{}
			case 2:
				l[i].Data = []byte{7, byte(i)}
			}
		}
		g.Blocks = &l
	}
	return &ipldbind.GraphSyncMessageRoot{Gs2: g}
}
