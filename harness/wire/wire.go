// verif:dir message/v2
//
// Harness group wire (in-package message/v2): the real toIPLD / fromIPLD field
// mapping, message constructors, ParseRequestID, go-cid prefix encoding and
// the extension payload codecs, on messages enumerated up to a size bound with
// symbolic priorities, status codes and presence bits.
package v2

import (
	"bytes"
	"encoding/binary"
	"io"

	"github.com/libp2p/go-msgio"

	blocks "github.com/ipfs/go-block-format"
	"github.com/ipfs/go-cid"
	"github.com/ipld/go-ipld-prime/codec/dagcbor"
	"github.com/ipld/go-ipld-prime/datamodel"
	cidlink "github.com/ipld/go-ipld-prime/linking/cid"
	"github.com/ipld/go-ipld-prime/node/basicnode"

	"github.com/ipfs/go-graphsync"
	"github.com/ipfs/go-graphsync/cidset"
	"github.com/ipfs/go-graphsync/dedupkey"
	"github.com/ipfs/go-graphsync/donotsendfirstblocks"
	"github.com/ipfs/go-graphsync/internal/verifrt"
	"github.com/ipfs/go-graphsync/message"
)

func wcid(codec uint64, i int) cid.Cid {
	pref := cid.Prefix{Version: 1, Codec: codec, MhType: 0x00, MhLength: -1}
	c, err := pref.Sum([]byte{byte(i)})
	if err != nil {
		panic(err)
	}
	return c
}

func wrid(i int) graphsync.RequestID {
	b := make([]byte, 16)
	b[0] = 0xab
	b[15] = byte(i + 1)
	id, err := graphsync.ParseRequestID(b)
	if err != nil {
		panic(err)
	}
	return id
}

var extNames = []graphsync.ExtensionName{"ext/a", "ext/b"}

func genExts(tag string) []graphsync.ExtensionData {
	n := verifrt.Choose(tag+"-next", verifrt.Param("EXTS", 2)+1)
	var out []graphsync.ExtensionData
	for i := 0; i < n; i++ {
		var data datamodel.Node
		switch verifrt.Choose(tag+"-extkind", verifrt.Param("EXTKINDS", 2)) {
		case 0: // no payload
		case 1:
			data = basicnode.NewString("payload-" + string(extNames[i]))
		case 2:
			data = datamodel.Null
		case 3: // nested: a list holding an int (symbolic), a string and a null
			data = fluentList(basicnode.NewInt(verifrt.I64(tag+"-ext-int")), basicnode.NewString("s"), datamodel.Null)
		case 4: // nested: a map holding a list, bytes and a bool
			// (keys in DAG-CBOR's canonical order: the encoder sorts map keys, and
			// DeepEqual is order-sensitive; entry order is not message content)
			data = fluentMap("b", basicnode.NewBytes([]byte{0, 255}), "l", fluentList(basicnode.NewInt(7)), "t", basicnode.NewBool(true))
		}
		out = append(out, graphsync.ExtensionData{Name: extNames[i], Data: data})
	}
	return out
}

func sameExts(tag string, want []graphsync.ExtensionData, got message.MessagePartWithExtensions) {
	names := got.ExtensionNames()
	verifrt.Assert(len(names) == len(want), "C11 "+tag+": number of extensions changed by the round trip")
	for _, e := range want {
		d, ok := got.Extension(e.Name)
		verifrt.Assert(ok, "C11 "+tag+": extension lost by the round trip")
		if e.Data == nil || e.Data.IsNull() {
			// an absent payload and a null payload are both carried as null
			verifrt.Assert(d == nil || d.IsNull(), "C11 "+tag+": absent or null extension payload became a value")
		} else {
			verifrt.Assert(d != nil && datamodel.DeepEqual(d, e.Data), "C11 "+tag+": extension payload changed")
		}
	}
}

func fluentList(items ...datamodel.Node) datamodel.Node {
	nb := basicnode.Prototype.List.NewBuilder()
	la, _ := nb.BeginList(int64(len(items)))
	for _, it := range items {
		_ = la.AssembleValue().AssignNode(it)
	}
	_ = la.Finish()
	return nb.Build()
}

func fluentMap(kv ...any) datamodel.Node {
	nb := basicnode.Prototype.Map.NewBuilder()
	ma, _ := nb.BeginMap(int64(len(kv) / 2))
	for i := 0; i+1 < len(kv); i += 2 {
		_ = ma.AssembleKey().AssignString(kv[i].(string))
		_ = ma.AssembleValue().AssignNode(kv[i+1].(datamodel.Node))
	}
	_ = ma.Finish()
	return nb.Build()
}

type wreq struct {
	id   graphsync.RequestID
	typ  graphsync.RequestType
	root cid.Cid
	sel  datamodel.Node
	prio graphsync.Priority
	exts []graphsync.ExtensionData
}

type wresp struct {
	id     graphsync.RequestID
	status graphsync.ResponseStatusCode
	md     []message.GraphSyncLinkMetadatum
	exts   []graphsync.ExtensionData
}

// VerifWire_RoundTrip: fromIPLD(toIPLD(m)) is equivalent to m.
func VerifWire_RoundTrip() {
	nreq := verifrt.Choose("nreq", verifrt.Param("REQS", 2)+1)
	nresp := verifrt.Choose("nresp", verifrt.Param("RESPS", 2)+1)
	nblk := verifrt.Choose("nblk", verifrt.Param("BLOCKS", 2)+1)
	verifrt.Assume(nreq+nresp+nblk > 0)
	var reqs []wreq
	requests := map[graphsync.RequestID]message.GraphSyncRequest{}
	for i := 0; i < nreq; i++ {
		r := wreq{id: wrid(i)}
		switch verifrt.Choose("rtype", 3) {
		case 0:
			r.typ = graphsync.RequestTypeNew
			if verifrt.Choose("hasroot", 2) == 1 {
				r.root = wcid(0x71, 40+i)
			} else {
				r.root = cid.Undef
			}
			if verifrt.Choose("hassel", 2) == 1 {
				r.sel = basicnode.NewString("selector")
			}
			if verifrt.Param("CONCRETE", 0) == 1 {
				prios := []graphsync.Priority{0, 1, -1, 2147483647, -2147483648, 65536}
				r.prio = prios[verifrt.Choose("priority-value", len(prios))]
			} else {
				r.prio = graphsync.Priority(verifrt.I32("priority"))
			}
			r.exts = genExts("req")
			requests[r.id] = message.NewRequest(r.id, r.root, r.sel, r.prio, r.exts...)
		case 1:
			r.typ = graphsync.RequestTypeCancel
			r.root = cid.Undef
			requests[r.id] = message.NewCancelRequest(r.id)
		case 2:
			r.typ = graphsync.RequestTypeUpdate
			r.root = cid.Undef
			r.exts = genExts("upd")
			requests[r.id] = message.NewUpdateRequest(r.id, r.exts...)
		}
		reqs = append(reqs, r)
	}
	var resps []wresp
	responses := map[graphsync.RequestID]message.GraphSyncResponse{}
	for i := 0; i < nresp; i++ {
		r := wresp{id: wrid(10 + i)}
		if verifrt.Param("CONCRETE", 0) == 1 {
			codes := []graphsync.ResponseStatusCode{10, 11, 12, 13, 14, 15, 20, 21, 30, 31, 32, 33, 34, 35}
			r.status = codes[verifrt.Choose("status-value", len(codes))]
		} else {
			r.status = graphsync.ResponseStatusCode(verifrt.I32("status"))
		}
		if verifrt.Param("BYTES", 0) == 1 && verifrt.Param("CONCRETE", 0) == 0 {
			// "any defined status": the byte encoder refuses values outside the
			// schema's enumeration, which the property does not cover
			st := r.status
			verifrt.Assume((st >= 10 && st <= 15) || st == 20 || st == 21 || (st >= 30 && st <= 35))
		}
		nmd := verifrt.Choose("nmd", verifrt.Param("MD", 2)+1)
		for j := 0; j < nmd; j++ {
			acts := []graphsync.LinkAction{graphsync.LinkActionPresent, graphsync.LinkActionDuplicateNotSent, graphsync.LinkActionMissing}
			r.md = append(r.md, message.GraphSyncLinkMetadatum{Link: wcid(0x55, 20+j), Action: acts[verifrt.Choose("action", 3)]})
		}
		r.exts = genExts("resp")
		responses[r.id] = message.NewResponse(r.id, r.status, r.md, r.exts...)
		resps = append(resps, r)
	}
	blks := map[cid.Cid]blocks.Block{}
	var blist []blocks.Block
	for i := 0; i < nblk; i++ {
		codec := uint64(0x55)
		if verifrt.Choose("codec", 2) == 1 {
			codec = 0x71
		}
		data := []byte{byte(60 + i)}
		c, _ := cid.Prefix{Version: 1, Codec: codec, MhType: 0x00, MhLength: -1}.Sum(data)
		b, err := blocks.NewBlockWithCid(data, c)
		verifrt.Assert(err == nil, "harness: block construction")
		blks[c] = b
		blist = append(blist, b)
	}
	m := message.NewMessage(requests, responses, blks)

	mh := NewMessageHandler()
	var m2 message.GraphSyncMessage
	if verifrt.Param("BYTES", 0) == 1 {
		// the real byte codec: ToNet (bindnode + DAG-CBOR + varint length
		// prefix) into a stream, optionally behind another message, and back
		// through the msgio reader and FromMsgReader
		var buf bytes.Buffer
		second := verifrt.Choose("second-message-on-stream", 2) == 1
		if second {
			first := message.NewMessage(map[graphsync.RequestID]message.GraphSyncRequest{wrid(90): message.NewCancelRequest(wrid(90))}, nil, nil)
			verifrt.Assert(mh.ToNet("p", first, &buf) == nil, "C11 ToNet failed on a well-formed message")
		}
		err := mh.ToNet("p", m, &buf)
		verifrt.Assert(err == nil, "C11 ToNet failed on a well-formed message")
		verifrt.Eventf("stream bytes=%d", buf.Len())
		if verifrt.Choose("decode-through-FromNet", 2) == 1 {
			// the other exported entry point: FromNet, called once per message on
			// a plain io.Reader (a socket or pipe: no ReadByte)
			var stream io.Reader = struct{ io.Reader }{&buf}
			if second {
				f, err := mh.FromNet("p", stream)
				verifrt.Assert(err == nil && len(f.Requests()) == 1 && f.Requests()[0].ID() == wrid(90), "C11 first message of a stream does not decode back")
			}
			m2, err = mh.FromNet("p", stream)
			verifrt.Assert(err == nil, "C11 FromNet failed on the encoding of a well-formed message")
			_, err = mh.FromNet("p", stream)
			verifrt.Assert(err == io.EOF, "C11 stream does not end after its last message")
			verifrt.Cover("from-net")
		} else {
			rd := msgio.NewVarintReaderSize(&buf, 4<<20)
			if second {
				f, err := mh.FromMsgReader("p", rd)
				verifrt.Assert(err == nil && len(f.Requests()) == 1 && f.Requests()[0].ID() == wrid(90), "C11 first message of a stream does not decode back")
			}
			m2, err = mh.FromMsgReader("p", rd)
			verifrt.Assert(err == nil, "C11 FromMsgReader failed on the encoding of a well-formed message")
			_, err = mh.FromMsgReader("p", rd)
			verifrt.Assert(err == io.EOF, "C11 stream does not end after its last message")
		}
		verifrt.Cover("bytes")
	} else {
		ib, err := mh.toIPLD(m)
		verifrt.Assert(err == nil && ib != nil, "C11 toIPLD failed on a well-formed message")
		m2, err = mh.fromIPLD(ib)
		verifrt.Assert(err == nil, "C11 fromIPLD failed on the encoding of a well-formed message")
	}

	got := map[graphsync.RequestID]message.GraphSyncRequest{}
	for _, r := range m2.Requests() {
		got[r.ID()] = r
	}
	verifrt.Assert(len(got) == len(reqs), "C11 number of requests changed by the round trip")
	for _, r := range reqs {
		g, ok := got[r.id]
		verifrt.Assert(ok, "C11 request lost by the round trip")
		verifrt.Assert(g.Type() == r.typ, "C11 request type changed by the round trip")
		if r.typ == graphsync.RequestTypeCancel {
			continue
		}
		sameExts("request", r.exts, g)
		if r.typ == graphsync.RequestTypeUpdate {
			continue
		}
		verifrt.Assert(g.Root() == r.root, "C11 request root changed by the round trip")
		verifrt.Assert((g.Selector() == nil) == (r.sel == nil), "C11 selector presence changed by the round trip")
		if r.sel != nil {
			verifrt.Assert(datamodel.DeepEqual(g.Selector(), r.sel), "C11 selector changed by the round trip")
		}
		verifrt.Assert(g.Priority() == r.prio, "C11 request priority changed by the round trip")
	}
	gotR := map[graphsync.RequestID]message.GraphSyncResponse{}
	for _, r := range m2.Responses() {
		gotR[r.RequestID()] = r
	}
	verifrt.Assert(len(gotR) == len(resps), "C11 number of responses changed by the round trip")
	for _, r := range resps {
		g, ok := gotR[r.id]
		verifrt.Assert(ok, "C11 response lost by the round trip")
		verifrt.Assert(g.Status() == r.status, "C11 response status changed by the round trip")
		sameExts("response", r.exts, g)
		md := g.Metadata()
		verifrt.Assert(md.Length() == int64(len(r.md)), "C11 metadata length changed by the round trip")
		i := 0
		md.Iterate(func(c cid.Cid, a graphsync.LinkAction) {
			if i < len(r.md) {
				verifrt.Assert(c == r.md[i].Link && a == r.md[i].Action, "C11 metadata entry changed or reordered by the round trip")
			}
			i++
		})
	}
	gotB := map[cid.Cid]blocks.Block{}
	for _, b := range m2.Blocks() {
		gotB[b.Cid()] = b
	}
	verifrt.Assert(len(gotB) == len(blist), "C11 number of blocks changed by the round trip")
	for _, b := range blist {
		g, ok := gotB[b.Cid()]
		verifrt.Assert(ok, "C11 block lost or re-keyed by the round trip")
		verifrt.Assert(bytes.Equal(g.RawData(), b.RawData()), "C11 block bytes changed by the round trip")
	}
	verifrt.Eventf("reqs=%d resps=%d blocks=%d", nreq, nresp, nblk)
	verifrt.Reached("end-roundtrip")
}

// VerifWire_Uvarint: the length prefix written by ToNet (binary.PutUvarint)
// is read back by binary.ReadUvarint, for every 64-bit value.
func VerifWire_Uvarint() {
	v := verifrt.U64("length")
	buf := make([]byte, binary.MaxVarintLen64)
	n := binary.PutUvarint(buf, v)
	verifrt.Assert(n >= 1 && n <= binary.MaxVarintLen64, "C11 varint length out of range")
	got, err := binary.ReadUvarint(bytes.NewReader(buf[:n]))
	verifrt.Assert(err == nil, "C11 length prefix does not read back")
	verifrt.Assert(got == v, "C11 length prefix reads back as a different value")
	// a second frame's prefix directly behind the first is found at offset n
	rest := append(append([]byte{}, buf[:n]...), 0x05)
	rd := bytes.NewReader(rest)
	_, _ = binary.ReadUvarint(rd)
	verifrt.Assert(rd.Len() == 1, "C11 reading a length prefix consumed bytes of the next frame")
	verifrt.Eventf("varint bytes=%d", n)
	verifrt.Reached("end-uvarint")
}

// VerifWire_Extensions: extension payload codecs decode what was encoded.
// viaBytes pushes an extension payload through the real DAG-CBOR byte codec.
func viaBytes(n datamodel.Node) datamodel.Node {
	if verifrt.Param("BYTES", 0) == 0 {
		return n
	}
	var buf bytes.Buffer
	err := dagcbor.Encode(n, &buf)
	verifrt.Assert(err == nil, "C11 extension payload does not encode")
	nb := basicnode.Prototype.Any.NewBuilder()
	err = dagcbor.Decode(nb, &buf)
	verifrt.Assert(err == nil, "C11 extension payload bytes do not decode")
	verifrt.Cover("payload-via-bytes")
	return nb.Build()
}

func VerifWire_Extensions() {
	n := verifrt.I64("skip")
	got, err := donotsendfirstblocks.DecodeDoNotSendFirstBlocks(viaBytes(donotsendfirstblocks.EncodeDoNotSendFirstBlocks(n)))
	verifrt.Assert(err == nil && got == n, "C11 do-not-send-first-blocks payload does not round-trip")
	keys := []string{"", "k", "a/longer-key"}
	k := keys[verifrt.Choose("key", len(keys))]
	kn, err := dedupkey.EncodeDedupKey(k)
	verifrt.Assert(err == nil, "C11 dedup key encode failed")
	gk, err := dedupkey.DecodeDedupKey(viaBytes(kn))
	verifrt.Assert(err == nil && gk == k, "C11 dedup-by-key payload does not round-trip")
	ncid := verifrt.Choose("ncids", verifrt.Param("CIDS", 3)+1)
	set := cid.NewSet()
	for i := 0; i < ncid; i++ {
		set.Add(wcid(0x55, i))
	}
	gs, err := cidset.DecodeCidSet(viaBytes(cidset.EncodeCidSet(set)))
	verifrt.Assert(err == nil && gs.Len() == ncid, "C11 do-not-send-cids payload changes size")
	for i := 0; i < ncid; i++ {
		verifrt.Assert(gs.Has(wcid(0x55, i)), "C11 do-not-send-cids payload loses a CID")
	}
	// negative cases: wrong kinds are errors, not panics
	_, err = donotsendfirstblocks.DecodeDoNotSendFirstBlocks(basicnode.NewString("x"))
	verifrt.Assert(err != nil, "C11 do-not-send-first-blocks accepts a string")
	_, err = dedupkey.DecodeDedupKey(basicnode.NewInt(n))
	verifrt.Assert(err != nil, "C11 dedup key accepts an int")
	_, err = cidset.DecodeCidSet(basicnode.NewInt(n))
	verifrt.Assert(err != nil, "C11 cid set accepts an int")
	_ = cidlink.Link{}
	verifrt.Eventf("ncids=%d", ncid)
	verifrt.Reached("end-extensions")
}

// VerifWire_Hostile: fromIPLD on an arbitrary schema-shaped struct (what the
// byte decoder can hand over at all): never panics; on success every request
// and response ID is a 16-byte identifier and every block is keyed by the CID
// computed from its own prefix and bytes.
func VerifWire_Hostile() {
	root := &ipldbindRoot{}
	_ = root
	ib := hostileRoot()
	mh := NewMessageHandler()
	m, err := mh.fromIPLD(ib)
	if err != nil {
		verifrt.Cover("hostile-rejected")
		verifrt.Eventf("rejected")
		verifrt.Reached("end-hostile")
		return
	}
	verifrt.Cover("hostile-accepted")
	for _, r := range m.Requests() {
		verifrt.Assert(len(r.ID().Bytes()) == 16, "C12 decoded request ID is not a 16-byte identifier")
	}
	for _, r := range m.Responses() {
		verifrt.Assert(len(r.RequestID().Bytes()) == 16, "C12 decoded response ID is not a 16-byte identifier")
		// metadata and extensions must be readable without panics
		r.Metadata().Iterate(func(cid.Cid, graphsync.LinkAction) {})
		for _, n := range r.ExtensionNames() {
			r.Extension(n)
		}
	}
	for _, b := range m.Blocks() {
		c := b.Cid()
		sum, err := c.Prefix().Sum(b.RawData())
		verifrt.Assert(err == nil && sum == c, "C12 decoded block is not keyed by the CID of its own bytes")
	}
	verifrt.Eventf("accepted reqs=%d resps=%d blocks=%d", len(m.Requests()), len(m.Responses()), len(m.Blocks()))
	verifrt.Reached("end-hostile")
}
