// verif:dir zz_verif/trav
//
// Harness group trav: the real ipldutil traverser (goroutine hand-off and
// all) over go-ipld-prime's real WalkAdv, on small basicnode DAGs whose blocks
// are decoded by a table decoder (no CBOR), with a symbolic link budget.
package trav

import (
	"bytes"
	"context"
	"errors"
	"io"
	"math"

	"github.com/ipfs/go-cid"
	"github.com/ipld/go-ipld-prime"
	"github.com/ipld/go-ipld-prime/codec"
	"github.com/ipld/go-ipld-prime/datamodel"
	"github.com/ipld/go-ipld-prime/fluent"
	"github.com/ipld/go-ipld-prime/linking"
	cidlink "github.com/ipld/go-ipld-prime/linking/cid"
	"github.com/ipld/go-ipld-prime/node/basicnode"
	"github.com/ipld/go-ipld-prime/traversal"
	"github.com/ipld/go-ipld-prime/traversal/selector"
	"github.com/ipld/go-ipld-prime/traversal/selector/builder"

	"github.com/ipfs/go-graphsync/internal/verifrt"
	"github.com/ipfs/go-graphsync/ipldutil"
)

// Link i is an identity-multihash CID over the single byte i.
func Link(i int) ipld.Link {
	_, c, err := cid.CidFromBytes([]byte{0x01, 0x55, 0x00, 0x01, byte(i)})
	if err != nil {
		panic(err)
	}
	return cidlink.Link{Cid: c}
}

// DAG is a table of blocks: block i decodes to Nodes[i]; its bytes are {i}.
type DAG struct {
	Nodes []datamodel.Node
}

// Chain builds k blocks, block i holding a link to block i+1.
func Chain(k int) *DAG {
	d := &DAG{Nodes: make([]datamodel.Node, k)}
	for i := k - 1; i >= 0; i-- {
		i := i
		d.Nodes[i] = fluent.MustBuildMap(basicnode.Prototype.Map, 2, func(na fluent.MapAssembler) {
			na.AssembleEntry("v").AssignInt(int64(i))
			if i+1 < k {
				na.AssembleEntry("next").AssignLink(Link(i + 1))
			}
		})
	}
	return d
}

// Tree builds a complete binary tree with k blocks (heap numbering).
func Tree(k int) *DAG {
	d := &DAG{Nodes: make([]datamodel.Node, k)}
	for i := k - 1; i >= 0; i-- {
		i := i
		d.Nodes[i] = fluent.MustBuildMap(basicnode.Prototype.Map, 3, func(na fluent.MapAssembler) {
			na.AssembleEntry("v").AssignInt(int64(i))
			if 2*i+1 < k {
				na.AssembleEntry("l").AssignLink(Link(2*i + 1))
			}
			if 2*i+2 < k {
				na.AssembleEntry("r").AssignLink(Link(2*i + 2))
			}
		})
	}
	return d
}

// LinkSystem returns a link system whose decoder looks blocks up in the table.
func (d *DAG) LinkSystem() ipld.LinkSystem {
	ls := cidlink.DefaultLinkSystem()
	ls.TrustedStorage = true
	ls.DecoderChooser = func(ipld.Link) (codec.Decoder, error) {
		return func(na datamodel.NodeAssembler, r io.Reader) error {
			b, err := io.ReadAll(r)
			if err != nil {
				return err
			}
			if len(b) != 1 || int(b[0]) >= len(d.Nodes) {
				return errors.New("table decoder: unknown block")
			}
			return na.AssignNode(d.Nodes[b[0]])
		}, nil
	}
	return ls
}

func Chooser(ipld.Link, linking.LinkContext) (datamodel.NodePrototype, error) {
	return basicnode.Prototype.Any, nil
}

func AllSelector() datamodel.Node {
	ssb := builder.NewSelectorSpecBuilder(basicnode.Prototype.Any)
	return ssb.ExploreRecursive(selector.RecursionLimitDepth(10), ssb.ExploreAll(ssb.ExploreRecursiveEdge())).Node()
}

// VerifTrav_Budget: with link budget N on a DAG needing k blocks the traverser
// loads min(k, N) blocks; k <= N completes without error, k > N ends with
// ErrBudgetExceeded after exactly N blocks.
func VerifTrav_Budget() {
	kmax := verifrt.Param("KMAX", 4)
	k := 1 + verifrt.Choose("k", kmax)
	var dag *DAG
	if verifrt.Choose("shape", 2) == 0 {
		dag = Chain(k)
	} else {
		dag = Tree(k)
	}
	n := verifrt.I64("budget")
	verifrt.Assume(n >= 1)
	budget := &traversal.Budget{NodeBudget: math.MaxInt64, LinkBudget: n}
	t := ipldutil.TraversalBuilder{
		Root:       Link(0),
		Selector:   AllSelector(),
		LinkSystem: dag.LinkSystem(),
		Chooser:    Chooser,
		Budget:     budget,
	}.Start(context.Background())
	loaded := int64(0)
	var final error
	for {
		done, err := t.IsComplete()
		if done {
			final = err
			break
		}
		lnk, _ := t.CurrentRequest()
		c := lnk.(cidlink.Link).Cid
		id := c.Hash()[len(c.Hash())-1]
		if err := t.Advance(bytes.NewReader([]byte{id})); err != nil {
			final = err
			break
		}
		loaded++
		verifrt.Assert(loaded <= int64(k), "C07 more blocks loaded than the DAG has")
	}
	verifrt.Eventf("k=%d loaded=%d err=%v", k, loaded, final != nil)
	verifrt.Assert(loaded <= n, "C07 more blocks loaded than the link budget allows")
	var be *traversal.ErrBudgetExceeded
	exceeded := errors.As(final, &be)
	if int64(k) <= n {
		verifrt.Cover("within-budget")
		verifrt.AssertKF(final == nil && loaded == int64(k), "C07 traversal needing at most N blocks failed or stopped early under budget N", "C07-F1", n == 1)
	} else {
		verifrt.Cover("over-budget")
		verifrt.AssertKF(exceeded, "C07 traversal needing more than N blocks did not end with a budget-exceeded error", "C07-F1", n == 1)
		verifrt.AssertKF(loaded == n, "C07 over-budget traversal did not load exactly N blocks", "C07-F1", n == 1)
	}
	t.Shutdown(context.Background())
	verifrt.Reached("end-budget")
}
