// verif:dir zz_verif/alloc
//
// Harness group alloc: the real allocator.Allocator (and go-ipfs-pq under
// it) driven through its public API by an arbitrary bounded history with
// symbolic limits and amounts, checked against a ghost ledger that follows
// the specification text of C13 and C14.
package alloc

import (
	"github.com/ipfs/go-graphsync/allocator"
	"github.com/ipfs/go-graphsync/internal/verifrt"
	"github.com/libp2p/go-libp2p/core/peer"
)

const (
	waiting = 0
	granted = 1
	failed  = 2
)

type galloc struct {
	p      int
	amount uint64
	issue  int
	ch     <-chan error
	state  int
	atCall bool // granted by the call itself
}

type ghost struct {
	a       *allocator.Allocator
	total   uint64
	perPeer uint64
	peers   []peer.ID
	held    []uint64  // granted minus released, per peer
	allocs  []*galloc // every allocation ever issued, in issue order
}

const bound = uint64(1) << 60

func newGhost(npeers int) *ghost {
	g := &ghost{}
	g.total = verifrt.U64("total")
	g.perPeer = verifrt.U64("perPeer")
	verifrt.Assume(g.total < bound)
	verifrt.Assume(g.perPeer < bound)
	names := []peer.ID{"peerA", "peerB", "peerC", "peerD"}
	g.peers = names[:npeers]
	g.held = make([]uint64, npeers)
	g.a = allocator.NewAllocator(g.total, g.perPeer)
	return g
}

// waitingOf returns the waiting allocations of peer p in issue order.
func (g *ghost) waitingOf(p int) []*galloc {
	var w []*galloc
	for _, al := range g.allocs {
		if al.p == p && al.state == waiting {
			w = append(w, al)
		}
	}
	return w
}

func (g *ghost) sumHeld() uint64 {
	s := uint64(0)
	for _, h := range g.held {
		s += h
	}
	return s
}

// poll reads every waiting allocation's channel without blocking and returns
// the allocations that were resolved since the last poll, in issue order.
func (g *ghost) poll() []*galloc {
	var resolved []*galloc
	for _, al := range g.allocs {
		if al.state != waiting {
			// N7 exactly once: a resolved channel never holds a second result
			verifrt.Assert(len(al.ch) == 0, "C14/N7 second result on a resolved allocation")
			continue
		}
		select {
		case err := <-al.ch:
			if err == nil {
				al.state = granted
				g.held[al.p] += al.amount
			} else {
				al.state = failed
			}
			verifrt.Assert(len(al.ch) == 0, "C14/N7 two results delivered")
			resolved = append(resolved, al)
		default:
		}
	}
	return resolved
}

func (g *ghost) alloc(p int) {
	amount := verifrt.U64("amount")
	verifrt.Assume(amount < bound)
	hadWaiting := len(g.waitingOf(p)) > 0
	fits := g.sumHeld()+amount <= g.total && g.held[p]+amount <= g.perPeer
	al := &galloc{p: p, amount: amount, issue: len(g.allocs)}
	al.ch = g.a.AllocateBlockMemory(g.peers[p], amount)
	g.allocs = append(g.allocs, al)
	verifrt.Eventf("alloc peer=%d issue=%d", p, al.issue)
	res := g.poll()
	// N1 immediate grant <=> nothing waiting for that peer and fits both limits
	if !hadWaiting && fits {
		verifrt.Assert(al.state == granted, "C14/N1 fitting allocation with nothing waiting was not granted at once")
		verifrt.Cover("alloc-granted-at-once")
	} else {
		verifrt.Assert(al.state == waiting, "C14/N1 allocation granted although it does not fit or must queue")
		verifrt.Cover("alloc-had-to-wait")
	}
	for _, r := range res {
		verifrt.Assert(r == al, "C14 allocate call resolved another allocation")
	}
}

func (g *ghost) release(p int) {
	amount := verifrt.U64("release")
	verifrt.Assume(amount < bound)
	err := g.a.ReleaseBlockMemory(g.peers[p], amount)
	verifrt.Eventf("release peer=%d err=%v", p, err != nil)
	if err != nil {
		// documented: releasing for an unknown peer is an error and a no-op
		verifrt.Assert(g.held[p] == 0 && len(g.waitingOf(p)) == 0, "C13 release refused for a peer that holds memory")
		g.checkGrants(g.poll(), -1)
		return
	}
	if amount > g.held[p] {
		verifrt.Cover("release-clamped")
		g.held[p] = 0
	} else {
		g.held[p] -= amount
	}
	g.checkGrants(g.poll(), -1)
}

func (g *ghost) releasePeer(p int) {
	w := g.waitingOf(p)
	err := g.a.ReleasePeerMemory(g.peers[p])
	verifrt.Eventf("releasePeer peer=%d err=%v", p, err != nil)
	if err != nil {
		verifrt.Assert(g.held[p] == 0 && len(w) == 0, "C13 peer release refused for a peer that holds memory")
		g.checkGrants(g.poll(), -1)
		return
	}
	g.held[p] = 0
	res := g.poll()
	// N6: every waiting allocation of p has failed, now.
	for _, al := range w {
		verifrt.Assert(al.state == failed, "C14/N6 waiting allocation of a released peer did not fail immediately")
		verifrt.Cover("peer-release-failed-waiting")
	}
	g.checkGrants(res, p)
	verifrt.Assert(g.a.AllocatedForPeer(g.peers[p]) == 0, "C13 released peer still reports memory")
}

// checkGrants checks the allocations resolved by a release operation.
func (g *ghost) checkGrants(res []*galloc, releasedPeer int) {
	for _, r := range res {
		if r.state == failed {
			verifrt.Assert(r.p == releasedPeer, "C14 allocation failed although its peer was not released")
			continue
		}
		verifrt.Cover("grant-after-release")
		// N2 per-peer order: nothing issued earlier by the same peer still waits
		for _, o := range g.allocs {
			if o.p == r.p && o.issue < r.issue {
				verifrt.Assert(o.state != waiting, "C14/N2 allocation granted before an earlier one of the same peer")
			}
		}
		// N5 global order: no earlier-issued head-of-peer allocation that fits
		// its own peer's limit is still waiting after this operation.
		for q := range g.peers {
			w := g.waitingOf(q)
			if len(w) == 0 || w[0].issue > r.issue {
				continue
			}
			verifrt.Assert(g.held[q]+w[0].amount > g.perPeer, "C14/N5 allocation granted ahead of an earlier-requested one that fits its peer's limit")
		}
	}
}

// invariants are checked after every operation.
func (g *ghost) invariants() {
	st := g.a.Stats()
	sum := g.sumHeld()
	verifrt.Assert(st.TotalAllocatedAllPeers == sum, "C13 reported total differs from granted minus released")
	verifrt.Assert(sum <= g.total, "C13 total limit exceeded")
	pend := uint64(0)
	npend := uint64(0)
	nwait := uint64(0)
	for p := range g.peers {
		verifrt.Assert(g.a.AllocatedForPeer(g.peers[p]) == g.held[p], "C13 per-peer total differs from granted minus released")
		verifrt.Assert(g.held[p] <= g.perPeer, "C13 per-peer limit exceeded")
		pp := uint64(0)
		w := g.waitingOf(p)
		for _, al := range w {
			pp += al.amount
		}
		pend += pp
		if pp > 0 {
			npend++
		}
		if len(w) > 0 {
			nwait++
		}
	}
	verifrt.Assert(st.TotalPendingAllocations == pend, "C13 reported pending bytes differ from waiting allocations")
	verifrt.Assert(st.NumPeersWithPendingAllocations >= npend && st.NumPeersWithPendingAllocations <= nwait, "C13 reported pending peer count wrong")
	verifrt.Assert(st.MaxAllowedAllocatedTotal == g.total && st.MaxAllowedAllocatedPerPeer == g.perPeer, "C13 reported limits wrong")
	// N4 no lost wake-up: among waiting heads that fit their own peer's limit,
	// the earliest-requested one does not fit under the total limit.
	var first *galloc
	for q := range g.peers {
		w := g.waitingOf(q)
		if len(w) == 0 {
			continue
		}
		if g.held[q]+w[0].amount <= g.perPeer {
			if first == nil || w[0].issue < first.issue {
				first = w[0]
			}
		}
	}
	if first != nil {
		verifrt.Cover("waiting-head-fits-own-limit")
		verifrt.Assert(sum+first.amount > g.total, "C14/N4 waiting allocation fits both limits but was not granted")
	}
}

func (g *ghost) step(i int) {
	op := verifrt.Choose("op", 3)
	p := verifrt.Choose("peer", len(g.peers))
	switch op {
	case 0:
		g.alloc(p)
	case 1:
		g.release(p)
	case 2:
		g.releasePeer(p)
	}
	g.invariants()
}

// VerifAlloc_Free: free histories of K operations over PEERS peers.
func VerifAlloc_Free() {
	k := verifrt.Param("K", 3)
	g := newGhost(verifrt.Param("PEERS", 2))
	for i := 0; i < k; i++ {
		g.step(i)
	}
	g.drain()
	verifrt.Reached("end-free")
}

// drain releases everything and checks that nothing is reported any more.
func (g *ghost) drain() {
	for p := range g.peers {
		if g.held[p] == 0 && len(g.waitingOf(p)) == 0 {
			continue
		}
		g.releasePeer(p)
		g.invariants()
	}
	for _, al := range g.allocs {
		verifrt.Assert(al.state != waiting, "C14 allocation still waiting after every peer was released")
	}
	st := g.a.Stats()
	verifrt.Assert(st.TotalAllocatedAllPeers == 0 && st.TotalPendingAllocations == 0 && st.NumPeersWithPendingAllocations == 0, "C13 something still reported after everything was released")
	verifrt.Cover("drained")
}

// VerifAlloc_Staged: grant* -> wait* -> release* -> any 2 operations, which
// reaches heap states with several peers waiting at low cost.
func VerifAlloc_Staged() {
	npeers := verifrt.Param("PEERS", 3)
	g := newGhost(npeers)
	ng := verifrt.Param("GRANTS", 2)
	nw := verifrt.Param("WAITS", 3)
	nr := verifrt.Param("RELEASES", 2)
	nf := verifrt.Param("FREE", 2)
	for i := 0; i < ng; i++ {
		p := verifrt.Choose("gpeer", npeers)
		g.alloc(p)
		g.invariants()
	}
	for i := 0; i < nw; i++ {
		p := verifrt.Choose("wpeer", npeers)
		g.alloc(p)
		g.invariants()
	}
	for i := 0; i < nr; i++ {
		p := verifrt.Choose("rpeer", npeers)
		if verifrt.Choose("rkind", 2) == 0 {
			g.release(p)
		} else {
			g.releasePeer(p)
		}
		g.invariants()
	}
	for i := 0; i < nf; i++ {
		g.step(i)
	}
	g.drain()
	verifrt.Reached("end-staged")
}
