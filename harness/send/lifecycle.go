// verif:dir zz_verif/send
package send

import (
	"context"
	"fmt"

	"github.com/libp2p/go-libp2p/core/peer"

	"github.com/ipfs/go-graphsync/internal/verifrt"
	"github.com/ipfs/go-graphsync/peermanager"
)

// proc is a recording PeerProcess.  Its run loop is explicit: Shutdown() (or
// the process's own decision after a connection failure) only asks it to stop;
// the loop exit, which invokes the manager's onShutdown callback exactly as
// MessageQueue.runQueue does, is a separate harness event.
type proc struct {
	id         int
	p          peer.ID
	started    bool
	stopAsked  bool
	exited     bool
	onShutdown func(peer.ID)
}

func (q *proc) Startup()  { q.started = true }
func (q *proc) Shutdown() { q.stopAsked = true }

// VerifSend_Lifecycle (C17): over every sequence of Connected, Disconnected,
// GetProcess, queue-decides-to-stop and queue-loop-exits events, at most one
// process per peer is live (started and not asked to stop), and after the
// last disconnect of a peer none is.
func VerifSend_Lifecycle() {
	steps := verifrt.Param("STEPS", 5)
	npeers := verifrt.Param("PEERS", 1)
	var procs []*proc
	pm := peermanager.New(context.Background(), func(ctx context.Context, p peer.ID, onShutdown func(peer.ID)) peermanager.PeerHandler {
		q := &proc{id: len(procs), p: p, onShutdown: onShutdown}
		procs = append(procs, q)
		return q
	})
	peers := []peer.ID{"peerA", "peerB", "peerC"}[:npeers]
	conns := make([]int, npeers)
	live := func(pi int) int {
		n := 0
		for _, q := range procs {
			if q.p == peers[pi] && q.started && !q.stopAsked {
				n++
			}
		}
		return n
	}
	desc := ""
	for st := 0; st < steps; st++ {
		pi := 0
		if npeers > 1 {
			pi = verifrt.Choose("peer", npeers)
		}
		p := peers[pi]
		switch verifrt.Choose("event", 5) {
		case 0:
			pm.Connected(p)
			conns[pi]++
			desc += fmt.Sprintf("C%d ", pi)
		case 1:
			if conns[pi] == 0 {
				verifrt.Assume(false) // disconnect notifications follow connects
			}
			pm.Disconnected(p)
			conns[pi]--
			desc += fmt.Sprintf("D%d ", pi)
			if conns[pi] == 0 {
				verifrt.Cover("last-disconnect")
				verifrt.AssertKF(live(pi) == 0, "C17 a message queue outlives the last disconnect of its peer", "C17-F1", false)
			}
		case 2:
			h := pm.GetProcess(p)
			q := h.(*proc)
			verifrt.Assert(q.started, "C17 GetProcess returned a process that was never started")
			desc += fmt.Sprintf("G%d ", pi)
		case 3: // a live queue of this peer decides to stop by itself (connection failure)
			var cand []*proc
			for _, q := range procs {
				if q.p == p && q.started && !q.stopAsked {
					cand = append(cand, q)
				}
			}
			if len(cand) == 0 {
				verifrt.Assume(false)
			}
			q := cand[verifrt.Choose("which", len(cand))]
			q.stopAsked = true
			desc += fmt.Sprintf("S%d ", q.id)
		case 4: // the run loop of a queue that was asked to stop exits
			var cand []*proc
			for _, q := range procs {
				if q.p == p && q.stopAsked && !q.exited {
					cand = append(cand, q)
				}
			}
			if len(cand) == 0 {
				verifrt.Assume(false)
			}
			q := cand[verifrt.Choose("which", len(cand))]
			q.exited = true
			q.onShutdown(q.p)
			desc += fmt.Sprintf("X%d ", q.id)
			verifrt.Cover("loop-exit")
		}
		for i := range peers {
			verifrt.AssertKF(live(i) <= 1, "C17 more than one live message queue for one peer", "C17-F1", false)
		}
	}
	verifrt.Event(desc)
	verifrt.Reached("end-lifecycle")
}
