// verif:dir zz_verif/send
//
// Harness group send: the real sending stack
//
//	ResponseAssembler -> PeerMessageManager/PeerManager -> MessageQueue ->
//	notifications publisher -> Allocator
//
// with a stub MessageNetwork/MessageSender whose every verdict is a solver
// variable, block and extension sizes as solver variables, and a recording
// subscriber per request.
package send

import (
	"fmt"

	"github.com/ipfs/go-cid"
	"github.com/ipld/go-ipld-prime/node/basicnode"
	"github.com/libp2p/go-libp2p/core/peer"

	"github.com/ipfs/go-graphsync"
	"github.com/ipfs/go-graphsync/internal/verifrt"
	"github.com/ipfs/go-graphsync/messagequeue"
	"github.com/ipfs/go-graphsync/responsemanager/responseassembler"
	"github.com/ipfs/go-graphsync/zz_verif/kit"
)

// opKinds of a transaction
const (
	opBlock = iota
	opMissing
	opDupBlock
	opExtData
	opExtNil
	opFinish
	nOps
)

const maxLen = 1 << 20

// Ghost of one attachment: (request, topic) pairs the subscriber was attached to.
type ghost struct {
	extBytes bool // some transaction carried extension data of non-zero encoded size
}

// runTransactions issues up to TX transactions of up to OPS operations over
// up to REQS requests to peer p, optionally letting the queue drain between
// them.  It returns whether any extension with data was queued.
func runTransactions(s *kit.Stack, p peer.ID, subs []*kit.Sub, g *ghost) {
	ntx := verifrt.Param("TX", 2)
	nops := verifrt.Param("OPS", 2)
	nreq := len(subs)
	streams := make([]responseassembler.ResponseStream, nreq)
	for i := range streams {
		streams[i] = s.RA.NewStream(s.Ctx, p, kit.ReqID(i), subs[i])
	}
	nextLink := 0
	finished := make([]bool, nreq)
	// OPSET is a bit mask over the operation kinds (default: all)
	opset := verifrt.Param("OPSET", 1<<nOps-1)
	var alphabet []int
	for k := 0; k < nOps; k++ {
		if opset&(1<<k) != 0 {
			alphabet = append(alphabet, k)
		}
	}
	for t := 0; t < ntx; t++ {
		r := 0
		if nreq > 1 {
			r = verifrt.Choose("req", nreq)
		}
		if finished[r] {
			continue
		}
		k := 1 + verifrt.Choose("nops", nops)
		kinds := make([]int, k)
		for i := range kinds {
			kinds[i] = alphabet[verifrt.Choose("op", len(alphabet))]
		}
		desc := fmt.Sprintf("tx%d req%d:", t, r)
		run := func(f func()) { f() }
		if verifrt.Param("OTHERPEER", 0) == 1 {
			// the transaction may have to wait for memory held by another peer,
			// possibly for ever: it is issued from a goroutine of its own
			run = func(f func()) {
				go f()
				verifrt.Quiesce()
			}
		}
		run(func() {
			_ = streams[r].Transaction(func(rb responseassembler.ResponseBuilder) error {
				for _, kd := range kinds {
					switch kd {
					case opBlock:
						data := verifrt.Bytes("blocklen", maxLen)
						rb.SendResponse(kit.Link(nextLink), data)
						nextLink++
						desc += " block"
					case opMissing:
						rb.SendResponse(kit.Link(nextLink), nil)
						nextLink++
						desc += " missing"
					case opDupBlock:
						if nextLink == 0 {
							continue
						}
						data := verifrt.Bytes("duplen", maxLen)
						rb.SendResponse(kit.Link(nextLink-1), data)
						desc += " dup"
					case opExtData:
						data := verifrt.Bytes("extlen", 255)
						rb.SendExtensionData(graphsync.ExtensionData{Name: "x", Data: basicnode.NewBytes(data)})
						g.extBytes = true
						desc += " ext"
					case opExtNil:
						rb.SendExtensionData(graphsync.ExtensionData{Name: "y"})
						desc += " extnil"
					case opFinish:
						rb.FinishRequest()
						finished[r] = true
						desc += " finish"
						return nil
					}
				}
				return nil
			})
		})
		verifrt.Event(desc)
		if verifrt.Param("NODRAIN", 0) == 0 && verifrt.Choose("drain", 2) == 1 {
			drain()
			verifrt.AssertKF(s.Alloc.AllocatedForPeer(p) == 0, "C15 memory still accounted to the peer although its queue is idle (between transactions)", "C15-F1", g.extBytes)
			verifrt.Cover("idle-between-transactions")
		}
	}
}

// drain lets the queue goroutines run until nothing more can happen: every
// pending virtual timer (the 100 ms retry back-off) is fired.
func drain() {
	verifrt.Quiesce()
	for i := 0; i < 6 && verifrt.Tick(); i++ {
		verifrt.Quiesce()
	}
}

// VerifSend_Accounting (C15, C16): after any transaction sequence and any
// placement of network failures, once the queue is idle nothing is accounted
// to the peer, and every attachment got exactly one Sent/Error.
func VerifSend_Accounting() {
	verifrt.SetNativeQuiesceMs(350)
	// the total limit is irrelevant with one peer (C13/C14 cover it); the
	// per-peer limit is symbolic so that reservations may have to wait
	total := uint64(1) << 40
	perPeer := verifrt.U64("peer-limit")
	verifrt.Assume(perPeer >= 2*maxLen+64 && perPeer < 1<<30)
	retries := verifrt.Param("RETRIES", 1)
	// OTHERPEER: another peer holds most of the shared memory for the whole
	// run, so that it is the total limit (a solver variable) that makes this
	// peer's reservations wait - possibly for ever
	const hold = uint64(1) << 22
	other := verifrt.Param("OTHERPEER", 0) == 1
	if other {
		total = verifrt.U64("total-limit")
		verifrt.Assume(total > hold && total <= hold+3*maxLen+64)
		perPeer = 1 << 30
	}
	s := kit.NewStack(total, perPeer, retries)
	pB := peer.ID("peerB")
	if other {
		err := <-s.Alloc.AllocateBlockMemory(pB, hold)
		verifrt.Assert(err == nil, "harness: the other peer's reservation was refused")
		verifrt.Cover("other-peer-holds-memory")
	}
	s.Net.MaxFaults = verifrt.Param("FAULTS", 2)
	p := peer.ID("peerA")
	nreq := verifrt.Param("REQS", 2)
	subs := make([]*kit.Sub, nreq)
	for i := range subs {
		subs[i] = &kit.Sub{ID: i}
	}
	g := &ghost{}
	runTransactions(s, p, subs, g)
	shutdown := verifrt.Choose("shutdown", 3)
	switch shutdown {
	case 1:
		// the peer disconnects before the queue has drained
		s.PMM.Connected(p)
		s.PMM.Disconnected(p)
		verifrt.Cover("shutdown-before-drain")
	}
	drain()
	if shutdown == 2 {
		s.PMM.Connected(p)
		s.PMM.Disconnected(p)
		verifrt.Quiesce()
	}
	if other {
		_ = s.Alloc.ReleasePeerMemory(pB)
		drain()
	}
	held := s.Alloc.AllocatedForPeer(p)
	st := s.Alloc.Stats()
	verifrt.Eventf("sent=%d sendcalls=%d exited=%d", len(s.Net.Sent), s.Net.SendCalls, len(s.Exited))
	verifrt.Assert(!s.H.Dropped, "C16 data handed to the peer's queue was dropped: its build callback never ran, so nobody is told sent or failed")
	verifrt.Assert(!s.OverRelease, "C15 more bytes were released for the peer than were accounted to it (a reservation was returned twice)")
	verifrt.AssertKF(held == 0, "C15 memory still accounted to the peer after its queue went idle", "C15-F1", g.extBytes)
	verifrt.AssertKF(st.TotalAllocatedAllPeers == 0, "C15 total allocated memory non-zero after every queue went idle", "C15-F1", g.extBytes)
	verifrt.Assert(st.TotalPendingAllocations == 0 && st.NumPeersWithPendingAllocations == 0, "C15 allocations still pending after every queue went idle")
	if len(s.Net.Sent) > 0 {
		verifrt.Cover("message-sent")
	}
	if s.Net.Faults > 0 {
		verifrt.Cover("network-fault")
	}
	// C16: per (subscriber, topic) attachment exactly one Sent or Error,
	// Queued at most once and before it, one close after it, nothing later;
	// and every message a request attached itself to is reported (or was
	// discarded after an Error the same subscriber received).
	for r, sb := range subs {
		type acc struct{ queued, outcome, closed int }
		// topic numbers are per message queue and start again at 0 when a
		// successor queue is created for the peer: an attachment is a topic
		// from its first event to its close
		per := map[messagequeue.Topic]*acc{}
		var order []*acc
		sawError := false
		for _, n := range sb.Log {
			a := per[n.Topic]
			if a == nil || (a.closed == 1 && a.outcome == 1 && !n.Close) {
				a = &acc{}
				per[n.Topic] = a
				order = append(order, a)
			}
			switch {
			case n.Close:
				verifrt.Assert(a.outcome == 1, "C16 subscription closed before the message was reported sent or failed")
				a.closed++
			case n.Name == messagequeue.Queued:
				verifrt.Assert(a.outcome == 0 && a.closed == 0, "C16 queued event after the outcome")
				a.queued++
			default:
				verifrt.Assert(a.closed == 0, "C16 event delivered after the subscription was closed")
				a.outcome++
				if n.Name == messagequeue.Error {
					sawError = true
				}
			}
		}
		for _, a := range order {
			verifrt.Assert(a.outcome == 1, "C16 a queued message was not reported sent or failed exactly once")
			verifrt.Assert(a.closed == 1, "C16 subscription not closed exactly once")
			verifrt.Assert(a.queued <= 1, "C16 queued reported twice")
			verifrt.Cover("attachment-reported")
		}
		attAll, att := s.H.Attachments(kit.ReqID(r))
		verifrt.Eventf("req%d attached=%d reported=%d error=%v", r, att, len(order), sawError)
		verifrt.Assert(len(order) <= attAll, "C16 subscriber notified about a message it never attached to")
		if !sawError {
			verifrt.AssertKF(len(order) == att, "C16 a message a subscriber attached to was never reported sent or failed", "C16-F1", s.DeadQueueBuild)
		} else {
			verifrt.Cover("error-reported")
		}
	}
	// C17(2): messages leave in the order they were queued: link indices were
	// handed out in queueing order (across all requests), so over the sequence
	// of sent messages they never decrease
	// (with OTHERPEER transactions wait for memory concurrently and are queued
	// in the order their reservations are granted, not in the order issued)
	if !other {
		last := -1
		for _, m := range s.Net.Sent {
			lo, hi := 1<<30, -1
			for _, rsp := range m.Responses() {
				rsp.Metadata().Iterate(func(c cid.Cid, _ graphsync.LinkAction) {
					idx := int(c.Hash()[len(c.Hash())-1])
					if idx < lo {
						lo = idx
					}
					if idx > hi {
						hi = idx
					}
				})
			}
			if hi >= 0 {
				verifrt.Assert(lo >= last, "C17 response data left the queue out of queued order")
				last = hi
			}
		}
	}
	verifrt.Reached("end-accounting")
}
