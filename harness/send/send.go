// verif:dir zz_verif/send
//
// Harness group send: the real sending stack
//   ResponseAssembler -> PeerMessageManager/PeerManager -> MessageQueue ->
//   notifications publisher -> Allocator
// with a stub MessageNetwork/MessageSender whose every verdict is a solver
// variable, block and extension sizes as solver variables, and a recording
// subscriber per request.
package send

import (
	"context"
	"errors"
	"fmt"
	"time"

	"github.com/ipld/go-ipld-prime"
	"github.com/ipld/go-ipld-prime/node/basicnode"
	"github.com/libp2p/go-libp2p/core/peer"

	"github.com/ipfs/go-cid"
	cidlink "github.com/ipld/go-ipld-prime/linking/cid"

	"github.com/ipfs/go-graphsync"
	"github.com/ipfs/go-graphsync/allocator"
	"github.com/ipfs/go-graphsync/internal/verifrt"
	gsmsg "github.com/ipfs/go-graphsync/message"
	"github.com/ipfs/go-graphsync/messagequeue"
	gsnet "github.com/ipfs/go-graphsync/network"
	"github.com/ipfs/go-graphsync/notifications"
	"github.com/ipfs/go-graphsync/peermanager"
	"github.com/ipfs/go-graphsync/responsemanager/responseassembler"
)

func Link(i int) ipld.Link {
	_, c, err := cid.CidFromBytes([]byte{0x01, 0x55, 0x00, 0x01, byte(i)})
	if err != nil {
		panic(err)
	}
	return cidlink.Link{Cid: c}
}

func ReqID(i int) graphsync.RequestID {
	b := make([]byte, 16)
	b[15] = byte(i + 1)
	id, err := graphsync.ParseRequestID(b)
	if err != nil {
		panic(err)
	}
	return id
}

// ---------------------------------------------------------------------
// stub network

type Net struct {
	Sent        []gsmsg.GraphSyncMessage
	SendCalls   int
	Connects    int
	OpenSenders int
	NoFaults    bool
	MaxFaults   int
	faults      int
}

func (n *Net) fault(name string) bool {
	if n.NoFaults || n.faults >= n.MaxFaults {
		return false
	}
	if verifrt.Bool(name) {
		n.faults++
		return true
	}
	return false
}

func (n *Net) ConnectTo(ctx context.Context, p peer.ID) error {
	n.Connects++
	if n.fault("connect-fails") {
		return errors.New("stub: connect failed")
	}
	return nil
}

func (n *Net) NewMessageSender(ctx context.Context, p peer.ID, o gsnet.MessageSenderOpts) (gsnet.MessageSender, error) {
	if n.fault("newsender-fails") {
		return nil, errors.New("stub: no sender")
	}
	n.OpenSenders++
	return &Sender{n: n}, nil
}

type Sender struct{ n *Net }

func (s *Sender) SendMsg(ctx context.Context, m gsmsg.GraphSyncMessage) error {
	s.n.SendCalls++
	if s.n.fault("send-fails") {
		return errors.New("stub: send failed")
	}
	s.n.Sent = append(s.n.Sent, m)
	return nil
}
func (s *Sender) Close() error { s.n.OpenSenders--; return nil }
func (s *Sender) Reset() error { s.n.OpenSenders--; return nil }

// ---------------------------------------------------------------------
// recording subscriber (one per request)

type note struct {
	topic messagequeue.Topic
	name  messagequeue.EventName
	close bool
}

type Sub struct {
	id  int
	log []note
}

func (s *Sub) OnNext(t notifications.Topic, e notifications.Event) {
	ev := e.(messagequeue.Event)
	s.log = append(s.log, note{topic: t.(messagequeue.Topic), name: ev.Name})
}
func (s *Sub) OnClose(t notifications.Topic) {
	s.log = append(s.log, note{topic: t.(messagequeue.Topic), close: true})
}

// ---------------------------------------------------------------------
// the stack

type Stack struct {
	Ctx     context.Context
	Cancel  context.CancelFunc
	Net     *Net
	Alloc   *allocator.Allocator
	PMM     *peermanager.PeerMessageManager
	RA      *responseassembler.ResponseAssembler
	Queues  []*messagequeue.MessageQueue
	Exited  []peer.ID
	Retries int
	H       *Handler
	// deadQueueBuild: a build callback ran on a queue whose run loop had
	// already exited (region of the known finding C16-F1)
	deadQueueBuild bool
}

func NewStack(total, perPeer uint64, retries int) *Stack {
	ctx, cancel := context.WithCancel(context.Background())
	s := &Stack{Ctx: ctx, Cancel: cancel, Net: &Net{}, Retries: retries}
	s.Alloc = allocator.NewAllocator(total, perPeer)
	s.PMM = peermanager.NewMessageManager(ctx, func(ctx context.Context, p peer.ID, onShutdown func(peer.ID)) peermanager.PeerQueue {
		tq := &tagQ{s: s}
		tq.MessageQueue = messagequeue.New(ctx, p, s.Net, s.Alloc, retries, time.Second, func(p peer.ID) {
			s.Exited = append(s.Exited, p)
			tq.exited = true
			onShutdown(p)
		})
		s.Queues = append(s.Queues, tq.MessageQueue)
		return tq
	})
	s.H = &Handler{pmm: s.PMM, attached: map[*messagequeue.Builder]map[graphsync.RequestID]bool{}}
	s.RA = responseassembler.New(ctx, s.H)
	return s
}

// tagQ is the real MessageQueue plus a ghost bit telling whether its run loop
// has exited; a build callback that runs afterwards marks the region of the
// known finding C16-F1.
type tagQ struct {
	*messagequeue.MessageQueue
	s      *Stack
	exited bool
}

func (t *tagQ) AllocateAndBuildMessage(size uint64, fn func(*messagequeue.Builder)) {
	t.MessageQueue.AllocateAndBuildMessage(size, func(b *messagequeue.Builder) {
		if t.exited {
			t.s.deadQueueBuild = true
		}
		fn(b)
	})
}

// Handler wraps the real PeerMessageManager and records, per message builder,
// which requests attached a subscriber to it (the ghost for C16).
type Handler struct {
	pmm      *peermanager.PeerMessageManager
	builders []*messagequeue.Builder
	attached map[*messagequeue.Builder]map[graphsync.RequestID]bool
}

func (h *Handler) AllocateAndBuildMessage(p peer.ID, size uint64, fn func(*messagequeue.Builder)) {
	h.pmm.AllocateAndBuildMessage(p, size, func(b *messagequeue.Builder) {
		fn(b)
		if h.attached[b] == nil {
			h.attached[b] = map[graphsync.RequestID]bool{}
			h.builders = append(h.builders, b)
		}
		for id := range b.Subscribers() {
			h.attached[b][id] = true
		}
	})
}

// attachments returns the number of distinct messages request id attached to
// (all of them, and those that are not empty: an empty builder is never a
// message).
func (h *Handler) attachments(id graphsync.RequestID) (all, nonEmpty int) {
	for _, b := range h.builders {
		if h.attached[b][id] {
			all++
			if !b.Empty() {
				nonEmpty++
			}
		}
	}
	return
}

// opKinds of a transaction
const (
	opBlock = iota
	opMissing
	opDupBlock
	opExtData
	opExtNil
	opFinish
	nOps
)

const maxLen = 1 << 20

// Ghost of one attachment: (request, topic) pairs the subscriber was attached to.
type ghost struct {
	extBytes bool // some transaction carried extension data of non-zero encoded size
}

// runTransactions issues up to TX transactions of up to OPS operations over
// up to REQS requests to peer p, optionally letting the queue drain between
// them.  It returns whether any extension with data was queued.
func runTransactions(s *Stack, p peer.ID, subs []*Sub, g *ghost) {
	ntx := verifrt.Param("TX", 2)
	nops := verifrt.Param("OPS", 2)
	nreq := len(subs)
	streams := make([]responseassembler.ResponseStream, nreq)
	for i := range streams {
		streams[i] = s.RA.NewStream(s.Ctx, p, ReqID(i), subs[i])
	}
	nextLink := 0
	finished := make([]bool, nreq)
	// OPSET is a bit mask over the operation kinds (default: all)
	opset := verifrt.Param("OPSET", 1<<nOps-1)
	var alphabet []int
	for k := 0; k < nOps; k++ {
		if opset&(1<<k) != 0 {
			alphabet = append(alphabet, k)
		}
	}
	for t := 0; t < ntx; t++ {
		r := 0
		if nreq > 1 {
			r = verifrt.Choose("req", nreq)
		}
		if finished[r] {
			continue
		}
		k := 1 + verifrt.Choose("nops", nops)
		kinds := make([]int, k)
		for i := range kinds {
			kinds[i] = alphabet[verifrt.Choose("op", len(alphabet))]
		}
		desc := fmt.Sprintf("tx%d req%d:", t, r)
		_ = streams[r].Transaction(func(rb responseassembler.ResponseBuilder) error {
			for _, kd := range kinds {
				switch kd {
				case opBlock:
					data := verifrt.Bytes("blocklen", maxLen)
					rb.SendResponse(Link(nextLink), data)
					nextLink++
					desc += " block"
				case opMissing:
					rb.SendResponse(Link(nextLink), nil)
					nextLink++
					desc += " missing"
				case opDupBlock:
					if nextLink == 0 {
						continue
					}
					data := verifrt.Bytes("duplen", maxLen)
					rb.SendResponse(Link(nextLink-1), data)
					desc += " dup"
				case opExtData:
					data := verifrt.Bytes("extlen", 255)
					rb.SendExtensionData(graphsync.ExtensionData{Name: "x", Data: basicnode.NewBytes(data)})
					g.extBytes = true
					desc += " ext"
				case opExtNil:
					rb.SendExtensionData(graphsync.ExtensionData{Name: "y"})
					desc += " extnil"
				case opFinish:
					rb.FinishRequest()
					finished[r] = true
					desc += " finish"
					return nil
				}
			}
			return nil
		})
		verifrt.Event(desc)
		if verifrt.Choose("drain", 2) == 1 {
			drain()
			verifrt.AssertKF(s.Alloc.AllocatedForPeer(p) == 0, "C15 memory still accounted to the peer although its queue is idle (between transactions)", "C15-F1", g.extBytes)
			verifrt.Cover("idle-between-transactions")
		}
	}
}

// drain lets the queue goroutines run until nothing more can happen: every
// pending virtual timer (the 100 ms retry back-off) is fired.
func drain() {
	verifrt.Quiesce()
	for i := 0; i < 6 && verifrt.Tick(); i++ {
		verifrt.Quiesce()
	}
}

// VerifSend_Accounting (C15, C16): after any transaction sequence and any
// placement of network failures, once the queue is idle nothing is accounted
// to the peer, and every attachment got exactly one Sent/Error.
func VerifSend_Accounting() {
	verifrt.SetNativeQuiesceMs(350)
	// the total limit is irrelevant with one peer (C13/C14 cover it); the
	// per-peer limit is symbolic so that reservations may have to wait
	total := uint64(1) << 40
	perPeer := verifrt.U64("peer-limit")
	verifrt.Assume(perPeer >= 2*maxLen+64 && perPeer < 1<<30)
	retries := verifrt.Param("RETRIES", 1)
	s := NewStack(total, perPeer, retries)
	s.Net.MaxFaults = verifrt.Param("FAULTS", 2)
	p := peer.ID("peerA")
	nreq := verifrt.Param("REQS", 2)
	subs := make([]*Sub, nreq)
	for i := range subs {
		subs[i] = &Sub{id: i}
	}
	g := &ghost{}
	runTransactions(s, p, subs, g)
	shutdown := verifrt.Choose("shutdown", 3)
	switch shutdown {
	case 1:
		// the peer disconnects before the queue has drained
		s.PMM.Connected(p)
		s.PMM.Disconnected(p)
		verifrt.Cover("shutdown-before-drain")
	}
	drain()
	if shutdown == 2 {
		s.PMM.Connected(p)
		s.PMM.Disconnected(p)
		verifrt.Quiesce()
	}
	held := s.Alloc.AllocatedForPeer(p)
	st := s.Alloc.Stats()
	verifrt.Eventf("sent=%d sendcalls=%d exited=%d", len(s.Net.Sent), s.Net.SendCalls, len(s.Exited))
	verifrt.AssertKF(held == 0, "C15 memory still accounted to the peer after its queue went idle", "C15-F1", g.extBytes)
	verifrt.AssertKF(st.TotalAllocatedAllPeers == 0, "C15 total allocated memory non-zero after every queue went idle", "C15-F1", g.extBytes)
	verifrt.Assert(st.TotalPendingAllocations == 0 && st.NumPeersWithPendingAllocations == 0, "C15 allocations still pending after every queue went idle")
	if len(s.Net.Sent) > 0 {
		verifrt.Cover("message-sent")
	}
	if s.Net.faults > 0 {
		verifrt.Cover("network-fault")
	}
	// C16: per (subscriber, topic) attachment exactly one Sent or Error,
	// Queued at most once and before it, one close after it, nothing later;
	// and every message a request attached itself to is reported (or was
	// discarded after an Error the same subscriber received).
	for r, sb := range subs {
		type acc struct{ queued, outcome, closed int }
		per := map[messagequeue.Topic]*acc{}
		var order []messagequeue.Topic
		sawError := false
		for _, n := range sb.log {
			a := per[n.topic]
			if a == nil {
				a = &acc{}
				per[n.topic] = a
				order = append(order, n.topic)
			}
			switch {
			case n.close:
				verifrt.Assert(a.outcome == 1, "C16 subscription closed before the message was reported sent or failed")
				a.closed++
			case n.name == messagequeue.Queued:
				verifrt.Assert(a.outcome == 0 && a.closed == 0, "C16 queued event after the outcome")
				a.queued++
			default:
				verifrt.Assert(a.closed == 0, "C16 event delivered after the subscription was closed")
				a.outcome++
				if n.name == messagequeue.Error {
					sawError = true
				}
			}
		}
		for _, t := range order {
			a := per[t]
			verifrt.Assert(a.outcome == 1, "C16 a queued message was not reported sent or failed exactly once")
			verifrt.Assert(a.closed == 1, "C16 subscription not closed exactly once")
			verifrt.Assert(a.queued <= 1, "C16 queued reported twice")
			verifrt.Cover("attachment-reported")
		}
		attAll, att := s.H.attachments(ReqID(r))
		verifrt.Eventf("req%d attached=%d reported=%d error=%v", r, att, len(order), sawError)
		verifrt.Assert(len(order) <= attAll, "C16 subscriber notified about a message it never attached to")
		if !sawError {
			verifrt.AssertKF(len(order) == att, "C16 a message a subscriber attached to was never reported sent or failed", "C16-F1", s.deadQueueBuild)
		} else {
			verifrt.Cover("error-reported")
		}
	}
	// C17(2): per request, link metadata leaves in the order it was queued
	for r := range subs {
		last := -1
		for _, m := range s.Net.Sent {
			for _, rsp := range m.Responses() {
				if rsp.RequestID() != ReqID(r) {
					continue
				}
				rsp.Metadata().Iterate(func(c cid.Cid, _ graphsync.LinkAction) {
					idx := int(c.Hash()[len(c.Hash())-1])
					verifrt.Assert(idx >= last, "C17 response data left the queue out of queued order")
					last = idx
				})
			}
		}
	}
	verifrt.Reached("end-accounting")
}
