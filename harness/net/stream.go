// verif:dir network
//
// Harness group net (in-package, network): the real handleNewStream loop with
// the real go-msgio varint frame reader and the real v2 MessageHandler
// (FromMsgReader, fromIPLD) on a stub stream.  The one third-party step that
// needs reflection, BindnodeRegistry.TypeFromBytes (bindnode + the DAG-CBOR
// byte decoder), returns what the harness chooses: an error, a panic, or a
// schema-shaped struct (well-formed or hostile).
package network

import (
	"bytes"
	"context"
	"encoding/binary"
	"errors"
	"io"
	"time"

	"github.com/ipld/go-ipld-prime/codec"
	"github.com/ipld/go-ipld-prime/codec/dagcbor"
	bindnoderegistry "github.com/ipld/go-ipld-prime/node/bindnode/registry"
	"github.com/libp2p/go-libp2p/core/network"
	"github.com/libp2p/go-libp2p/core/peer"
	"github.com/libp2p/go-libp2p/core/protocol"

	"github.com/ipfs/go-graphsync"
	"github.com/ipfs/go-graphsync/internal/verifrt"
	gsmsg "github.com/ipfs/go-graphsync/message"
	"github.com/ipfs/go-graphsync/message/ipldbind"
	gsmsgv2 "github.com/ipfs/go-graphsync/message/v2"
	"github.com/ipfs/go-graphsync/panics"
)

type fakeConn struct {
	network.Conn
	remote peer.ID
}

func (c *fakeConn) RemotePeer() peer.ID { return c.remote }

type fakeStream struct {
	network.Stream
	data   []byte
	pos    int
	resets int
	closes int
	conn   *fakeConn
}

func (s *fakeStream) Read(p []byte) (int, error) {
	if s.pos >= len(s.data) {
		return 0, io.EOF
	}
	n := copy(p, s.data[s.pos:])
	s.pos += n
	return n, nil
}
func (s *fakeStream) Close() error                     { s.closes++; return nil }
func (s *fakeStream) Reset() error                     { s.resets++; return nil }
func (s *fakeStream) SetReadDeadline(time.Time) error  { return nil }
func (s *fakeStream) Conn() network.Conn               { return s.conn }
func (s *fakeStream) Protocol() protocol.ID            { return ProtocolGraphsync_2_0_0 }

type fakeReceiver struct {
	msgs []gsmsg.GraphSyncMessage
	errs []error
}

func (r *fakeReceiver) ReceiveMessage(ctx context.Context, p peer.ID, m gsmsg.GraphSyncMessage) {
	r.msgs = append(r.msgs, m)
}
func (r *fakeReceiver) ReceiveError(p peer.ID, err error) { r.errs = append(r.errs, err) }
func (r *fakeReceiver) Connected(p peer.ID)               {}
func (r *fakeReceiver) Disconnected(p peer.ID)            {}

const (
	frValid = iota
	frDecodeError
	frDecodePanic
	frHostileStruct // decodes, but to a struct fromIPLD must refuse (15-byte id)
	frTruncated     // length prefix longer than the bytes that follow
	frOversize      // length prefix above the 4 MiB maximum
	frEmpty         // zero-length frame
	frDecodeEOF     // a complete frame whose CBOR ends early: the byte decoder reports io.EOF (observed natively for payload a1)
	nFrameKinds
)

func uvarint(n uint64) []byte {
	var b []byte
	for n >= 0x80 {
		b = append(b, byte(n)|0x80)
		n >>= 7
	}
	return append(b, byte(n))
}

func goodRoot(i int) *ipldbind.GraphSyncMessageRoot {
	id := make([]byte, 16)
	id[15] = byte(i + 1)
	return &ipldbind.GraphSyncMessageRoot{Gs2: &ipldbind.GraphSyncMessage{
		Responses: &[]ipldbind.GraphSyncResponse{{Id: id, Status: graphsync.RequestCompletedFull}},
	}}
}

// VerifNet_Stream (C12): whatever arrives on a stream, the handler returns,
// well-formed frames before the first bad one are delivered in order, the bad
// frame is reported as exactly one receive error with the stream reset, and
// nothing after it is delivered; a later stream is still served.
func VerifNet_Stream() {
	nframes := 1 + verifrt.Choose("frames", verifrt.Param("FRAMES", 2))
	kinds := make([]int, nframes)
	var data []byte
	for i := range kinds {
		kinds[i] = verifrt.Choose("frame-kind", nFrameKinds)
		switch kinds[i] {
		case frTruncated:
			if i != nframes-1 {
				verifrt.Assume(false) // only the end of a stream can be cut short
			}
			data = append(data, uvarint(5)...)
			data = append(data, 1, 2)
		case frOversize:
			data = append(data, uvarint(network.MessageSizeMax+1)...)
		case frEmpty:
			data = append(data, uvarint(0)...)
		default:
			data = append(data, uvarint(3)...)
			data = append(data, 7, 7, 7)
		}
	}
	// decoder outcomes, in the order the decoder is reached
	decoded := 0
	var panicsSeen []any
	ipldbind.BindnodeRegistry = bindnoderegistry.BindnodeRegistry{}
	verifrt.Stub("(github.com/ipld/go-ipld-prime/node/bindnode/registry.BindnodeRegistry).TypeFromBytes", func(br bindnoderegistry.BindnodeRegistry, byts []byte, ptr interface{}, dec codec.Decoder) (interface{}, error) {
		// which frame is this? the decoder is only reached for frames msgio delivered
		k := -1
		seen := 0
		for i, kd := range kinds {
			if kd == frTruncated || kd == frOversize {
				continue
			}
			if seen == decoded {
				k = i
				break
			}
			seen++
		}
		decoded++
		switch kinds[k] {
		case frDecodeError, frEmpty:
			return nil, errors.New("stub decoder: malformed cbor")
		case frDecodeEOF:
			return nil, io.EOF
		case frDecodePanic:
			panic("stub decoder: panic inside the byte decoder")
		case frHostileStruct:
			r := goodRoot(k)
			(*r.Gs2.Responses)[0].Id = make([]byte, 15)
			return r, nil
		}
		return goodRoot(k), nil
	})
	ph := panics.MakeHandler(func(obj any, stack string) { panicsSeen = append(panicsSeen, obj) })
	rcv := &fakeReceiver{}
	gsnet := &libp2pGraphSyncNetwork{
		receiver:               rcv,
		protocols:              []protocol.ID{ProtocolGraphsync_2_0_0},
		panicHandler:           ph,
		messageHandlerSelector: &messageHandlerSelector{v2MessageHandler: gsmsgv2.NewMessageHandler(), panicHandler: ph},
	}
	s := &fakeStream{data: data, conn: &fakeConn{remote: "peerA"}}
	gsnet.handleNewStream(s)
	verifrt.Quiesce()
	// expected: frames are good until the first bad one
	wantMsgs := 0
	bad := false
	for _, kd := range kinds {
		if kd == frValid {
			wantMsgs++
			continue
		}
		bad = true
		break
	}
	verifrt.Eventf("kinds=%v msgs=%d errs=%d resets=%d closes=%d panics=%d", kinds, len(rcv.msgs), len(rcv.errs), s.resets, s.closes, len(panicsSeen))
	verifrt.Assert(len(rcv.msgs) == wantMsgs, "C12 messages delivered differ from the well-formed frames before the first malformed one")
	if bad {
		verifrt.Cover("malformed-frame")
		verifrt.Assert(len(rcv.errs) == 1, "C12 a malformed frame was not reported as exactly one receive error")
		verifrt.Assert(s.resets == 1, "C12 the stream of a malformed frame was not reset exactly once")
	} else {
		verifrt.Cover("all-well-formed")
		verifrt.Assert(len(rcv.errs) == 0 && s.resets == 0, "C12 a well-formed stream was reported as an error or reset")
	}
	verifrt.Assert(s.closes == 1, "C12 the stream was not closed exactly once")
	for _, m := range rcv.msgs {
		for _, r := range m.Responses() {
			verifrt.Assert(len(r.RequestID().Bytes()) == 16, "C12 delivered request ID is not 16 bytes")
		}
	}
	// another stream afterwards is still served
	rcv2 := &fakeReceiver{}
	gsnet.receiver = rcv2
	kinds = []int{frValid}
	decoded = 0
	s2 := &fakeStream{data: append(uvarint(3), 7, 7, 7), conn: &fakeConn{remote: "peerB"}}
	gsnet.handleNewStream(s2)
	verifrt.Quiesce()
	verifrt.Assert(len(rcv2.msgs) == 1 && len(rcv2.errs) == 0, "C12 a later stream was not served after a malformed one")
	verifrt.Reached("end-stream")
}

func realFrame(i int) []byte {
	id := make([]byte, 16)
	id[15] = byte(i + 1)
	rid, _ := graphsync.ParseRequestID(id)
	m := gsmsg.NewMessage(nil, map[graphsync.RequestID]gsmsg.GraphSyncResponse{rid: gsmsg.NewResponse(rid, graphsync.RequestCompletedFull, nil)}, nil)
	var buf bytes.Buffer
	if err := gsmsgv2.NewMessageHandler().ToNet("p", m, &buf); err != nil {
		panic(err)
	}
	return append([]byte{}, buf.Bytes()...)
}

const (
	rbValid = iota
	rbMutated   // one payload byte replaced by an arbitrary value
	rbCutShort  // payload truncated, prefix corrected: a complete frame holding incomplete CBOR
	rbTruncated // stream ends inside the frame
	rbOversize
	rbEmpty
	rbHostileStruct // well-formed DAG-CBOR of a schema-shaped but unacceptable struct (encoded by the real encoder)
	nRealKinds
)

// hostileFrame encodes, through the real bindnode + DAG-CBOR encoder, a struct
// that matches the schema but that fromIPLD must refuse: a block whose CID
// prefix stops after k bytes, an ID of the wrong length, an unknown request
// type.
func hostileFrame(i int) []byte {
	id := make([]byte, 16)
	id[15] = byte(i + 1)
	g := &ipldbind.GraphSyncMessage{}
	switch k := verifrt.Choose("hostile-struct", 7); k {
	case 0, 1, 2, 3:
		full := []byte{0x01, 0x55, 0x12, 0x20}
		g.Blocks = &[]ipldbind.GraphSyncBlock{{Prefix: full[:k], Data: []byte{1, 2, 3}}}
	case 4:
		g.Responses = &[]ipldbind.GraphSyncResponse{{Id: id[:15], Status: graphsync.RequestCompletedFull}}
	case 5:
		g.Requests = &[]ipldbind.GraphSyncRequest{{Id: append(id, 0), RequestType: graphsync.RequestTypeCancel}}
	case 6:
		g.Requests = &[]ipldbind.GraphSyncRequest{{Id: id, RequestType: "bogus"}}
	}
	payload, err := ipldbind.BindnodeRegistry.TypeToBytes(&ipldbind.GraphSyncMessageRoot{Gs2: g}, dagcbor.Encode)
	if err != nil {
		// the encoder itself refuses it: nothing a peer could have sent this way
		verifrt.Assume(false)
	}
	return append(uvarint(uint64(len(payload))), payload...)
}

// VerifNet_StreamBytes (C12): the same stream-handler properties with nothing
// stubbed below it: real frames, the real byte decoder.  Whether a mutated
// frame is malformed is decided by decoding that frame alone with the same
// real decoder.
func VerifNet_StreamBytes() {
	nframes := 1 + verifrt.Choose("frames", verifrt.Param("FRAMES", 2))
	mh := gsmsgv2.NewMessageHandler()
	var data []byte
	good := make([]bool, nframes)
	nmut := 0
	for i := 0; i < nframes; i++ {
		fr := realFrame(i)
		_, plen := binary.Uvarint(fr)
		switch verifrt.Choose("frame-kind", nRealKinds) {
		case rbValid:
		case rbMutated:
			nmut++
			if nmut > verifrt.Param("MUTFRAMES", 1) {
				verifrt.Assume(false)
			}
			pos := plen + verifrt.Choose("position", len(fr)-plen)
			fr[pos] = verifrt.U8("byte")
			verifrt.Cover("mutated-frame")
		case rbCutShort:
			cut := plen + 1 + verifrt.Choose("cut", len(fr)-plen-1)
			payload := fr[plen:cut]
			fr = append(uvarint(uint64(len(payload))), payload...)
		case rbTruncated:
			if i != nframes-1 {
				verifrt.Assume(false)
			}
			fr = fr[:plen+verifrt.Choose("cut", len(fr)-plen)]
		case rbOversize:
			fr = uvarint(network.MessageSizeMax + 1)
		case rbEmpty:
			fr = uvarint(0)
		case rbHostileStruct:
			fr = hostileFrame(i)
			verifrt.Cover("hostile-struct")
		}
		_, err := mh.FromNet("p", bytes.NewReader(fr))
		good[i] = err == nil
		data = append(data, fr...)
	}
	var panicsSeen []any
	ph := panics.MakeHandler(func(obj any, stack string) { panicsSeen = append(panicsSeen, obj) })
	rcv := &fakeReceiver{}
	gsnet := &libp2pGraphSyncNetwork{
		receiver:               rcv,
		protocols:              []protocol.ID{ProtocolGraphsync_2_0_0},
		panicHandler:           ph,
		messageHandlerSelector: &messageHandlerSelector{v2MessageHandler: gsmsgv2.NewMessageHandler(), panicHandler: ph},
	}
	s := &fakeStream{data: data, conn: &fakeConn{remote: "peerA"}}
	gsnet.handleNewStream(s)
	verifrt.Quiesce()
	wantMsgs := 0
	bad := false
	for _, g := range good {
		if g {
			wantMsgs++
			continue
		}
		bad = true
		break
	}
	verifrt.Eventf("good=%v msgs=%d errs=%d resets=%d closes=%d panics=%d", good, len(rcv.msgs), len(rcv.errs), s.resets, s.closes, len(panicsSeen))
	verifrt.Assert(len(panicsSeen) == 0, "C12 hostile bytes made the decoder panic")
	verifrt.Assert(len(rcv.msgs) == wantMsgs, "C12 messages delivered differ from the well-formed frames before the first malformed one")
	if bad {
		verifrt.Cover("malformed-frame")
		verifrt.Assert(len(rcv.errs) == 1, "C12 a malformed frame was not reported as exactly one receive error")
		verifrt.Assert(s.resets == 1, "C12 the stream of a malformed frame was not reset exactly once")
	} else {
		verifrt.Cover("all-well-formed")
		verifrt.Assert(len(rcv.errs) == 0 && s.resets == 0, "C12 a well-formed stream was reported as an error or reset")
	}
	verifrt.Assert(s.closes == 1, "C12 the stream was not closed exactly once")
	for _, m := range rcv.msgs {
		for _, r := range m.Responses() {
			verifrt.Assert(len(r.RequestID().Bytes()) == 16, "C12 delivered request ID is not 16 bytes")
		}
		for _, r := range m.Requests() {
			verifrt.Assert(len(r.ID().Bytes()) == 16, "C12 delivered request ID is not 16 bytes")
		}
	}
	verifrt.Reached("end-stream-bytes")
}
