// verif:dir zz_verif/pub
//
// Harness group pub: the real notifications publisher (command queue, start
// goroutine, subscriber registry) driven through its public API by every
// sequence of subscribe / unsubscribe / publish / close-topic / shutdown
// operations within the bound, with symbolic event payloads.  A ghost model
// written from the property text predicts, per (subscriber, topic)
// subscription, the exact stream of deliveries and the single end-of-
// subscription notice.
package pub

import (
	"fmt"

	"github.com/ipfs/go-graphsync/internal/verifrt"
	"github.com/ipfs/go-graphsync/notifications"
)

type rec struct {
	next  bool
	topic int
	val   uint64
}

type recSub struct {
	id  int
	log []rec
}

func (s *recSub) OnNext(t notifications.Topic, e notifications.Event) {
	s.log = append(s.log, rec{true, t.(int), e.(uint64)})
}

func (s *recSub) OnClose(t notifications.Topic) {
	s.log = append(s.log, rec{false, t.(int), 0})
}

// ghost: expected stream per (subscriber, topic)
type ghost struct {
	active [][]bool
	want   [][][]rec
	down   bool
}

func VerifPub_History() {
	steps := verifrt.Param("STEPS", 4)
	ntop := verifrt.Param("TOPICS", 2)
	nsub := verifrt.Param("SUBS", 2)
	ps := notifications.NewPublisher()
	ps.Startup()
	subs := make([]*recSub, nsub)
	g := &ghost{active: make([][]bool, nsub), want: make([][][]rec, nsub)}
	for i := range subs {
		subs[i] = &recSub{id: i}
		g.active[i] = make([]bool, ntop)
		g.want[i] = make([][]rec, ntop)
	}
	eachOp := verifrt.Choose("quiesce-after-each-op", 2) == 1
	desc := ""
	// symmetry reduction: subscribers and topics are interchangeable, so the
	// k-th distinct one used is always index k.
	usedS, usedT := 0, 0
	pickS := func() int {
		s := verifrt.Choose("sub", min(nsub, usedS+1))
		if s == usedS {
			usedS++
		}
		return s
	}
	pickT := func() int {
		t := verifrt.Choose("topic", min(ntop, usedT+1))
		if t == usedT {
			usedT++
		}
		return t
	}
	for st := 0; st < steps; st++ {
		switch verifrt.Choose("op", 5) {
		case 0: // subscribe
			s, t := pickS(), pickT()
			ok := ps.Subscribe(t, subs[s])
			verifrt.Assert(ok == !g.down, "C18 Subscribe result does not tell whether the publisher is running")
			if !g.down {
				g.active[s][t] = true
			}
			desc += fmt.Sprintf("S%d.%d ", s, t)
		case 1: // unsubscribe
			s := pickS()
			ok := ps.Unsubscribe(subs[s])
			verifrt.Assert(ok == !g.down, "C18 Unsubscribe result does not tell whether the publisher is running")
			if !g.down {
				for t := 0; t < ntop; t++ {
					if g.active[s][t] {
						g.active[s][t] = false
						g.want[s][t] = append(g.want[s][t], rec{false, t, 0})
					}
				}
			}
			desc += fmt.Sprintf("U%d ", s)
		case 2: // publish
			t := pickT()
			v := verifrt.U64("payload")
			ps.Publish(t, v)
			if !g.down {
				for s := 0; s < nsub; s++ {
					if g.active[s][t] {
						g.want[s][t] = append(g.want[s][t], rec{true, t, v})
					}
				}
			}
			desc += fmt.Sprintf("P%d ", t)
		case 3: // close topic
			t := pickT()
			ps.Close(t)
			if !g.down {
				for s := 0; s < nsub; s++ {
					if g.active[s][t] {
						g.active[s][t] = false
						g.want[s][t] = append(g.want[s][t], rec{false, t, 0})
					}
				}
			}
			desc += fmt.Sprintf("C%d ", t)
		case 4: // shutdown
			ps.Shutdown()
			if !g.down {
				g.down = true
				for s := 0; s < nsub; s++ {
					for t := 0; t < ntop; t++ {
						if g.active[s][t] {
							g.active[s][t] = false
							g.want[s][t] = append(g.want[s][t], rec{false, t, 0})
						}
					}
				}
				verifrt.Cover("shutdown")
			}
			desc += "X "
		}
		if eachOp {
			verifrt.Quiesce()
		}
	}
	verifrt.Quiesce()
	verifrt.Event(desc)
	// compare per subscription
	for s := 0; s < nsub; s++ {
		for t := 0; t < ntop; t++ {
			var got []rec
			for _, r := range subs[s].log {
				if r.topic == t {
					got = append(got, r)
				}
			}
			want := g.want[s][t]
			verifrt.Eventf("sub%d topic%d got=%d want=%d", s, t, len(got), len(want))
			verifrt.Assert(len(got) == len(want), "C18 number of deliveries to a subscription differs from the events published during it plus its end notice")
			closes := 0
			for i := range got {
				if i < len(want) {
					verifrt.Assert(got[i].next == want[i].next, "C18 delivery kind out of order (event vs end-of-subscription)")
					if got[i].next {
						verifrt.Assert(got[i].val == want[i].val, "C18 event delivered out of publication order or with the wrong payload")
						verifrt.Cover("event-delivered")
					}
				}
				if !got[i].next {
					closes++
				}
			}
			_ = closes
		}
	}
	verifrt.Reached("end-pub")
}
