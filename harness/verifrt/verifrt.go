// verif:dir internal/verifrt
//
// Package verifrt is the harness runtime.  Under the gosym engine every
// function below is an intrinsic (the bodies are never executed); compiled
// natively (go test -overlay) the bodies replay one counterexample or sample
// path from the JSON file named by VERIF_REPLAY, so that what the solver found
// can be checked against the real build.
package verifrt

import (
	"encoding/json"
	"fmt"
	"os"
	"runtime"
	"strings"
	"sync"
	"time"
)

type input struct {
	Name  string `json:"name"`
	Value uint64 `json:"value"`
}

// ReplayFile is the on-disk format of a counterexample / sample path.
type ReplayFile struct {
	Property string           `json:"property"`
	Entry    string           `json:"entry"`
	Group    string           `json:"group"`
	Params   map[string]int64 `json:"params"`
	Inputs   []input          `json:"inputs"`
	Label    string           `json:"label"`
	Kind     string           `json:"kind"`
	Events   []string         `json:"events"`
}

type assertFailed struct{ label string }
type assumeFailed struct{}
type knownFinding struct{ label, kf string }

var st struct {
	mu     sync.Mutex
	file   ReplayFile
	vals   map[string]uint64
	count  map[string]int
	events []string
	failed string
}

func next(name string) uint64 {
	st.mu.Lock()
	defer st.mu.Unlock()
	n := st.count[name]
	st.count[name] = n + 1
	full := name
	if n > 0 {
		full = fmt.Sprintf("%s#%d", name, n)
	}
	v, ok := st.vals[full]
	if !ok {
		st.events = append(st.events, "REPLAY-MISSING-INPUT "+full)
	}
	return v
}

func U64(name string) uint64 { return next(name) }
func I64(name string) int64  { return int64(next(name)) }
func U32(name string) uint32 { return uint32(next(name)) }
func I32(name string) int32  { return int32(next(name)) }
func U8(name string) uint8   { return uint8(next(name)) }
func Int(name string) int    { return int(next(name)) }
func Bool(name string) bool  { return next(name)&1 == 1 }

// Bytes returns a non-nil byte slice of opaque content and length in [0,max]
// (the length is a solver variable under the engine).
func Bytes(name string, max int) []byte {
	n := int(next(name))
	if n < 0 || n > max {
		panic(assumeFailed{})
	}
	return make([]byte, n)
}

// Choose returns a value in [0,n): an exhaustively explored finite choice.
func Choose(name string, n int) int { return int(next(name)) % n }

// Assume drops the path when cond is false.
func Assume(cond bool) {
	if !cond {
		panic(assumeFailed{})
	}
}

// Assert is the property: the engine asks the solver whether cond can be
// false under the path condition.
func Assert(cond bool, label string) {
	if skipLabel(label) {
		return
	}
	if !cond {
		panic(assertFailed{label})
	}
}

// AssertKF is Assert with a known-finding region (see DESIGN.md 2.7).
func AssertKF(cond bool, label, kf string, region bool) {
	if skipLabel(label) {
		return
	}
	if !cond {
		if region {
			panic(knownFinding{label, kf})
		}
		panic(assertFailed{label})
	}
}

// skipLabel mirrors the engine: an assertion labelled for another property
// ("Cnn ...") is not checked when the run is restricted to one property.
func skipLabel(label string) bool {
	p := st.file.Property
	if p == "" || len(label) < 3 || label[0] != 'C' || label[1] < '0' || label[1] > '9' || label[2] < '0' || label[2] > '9' {
		return false
	}
	// a label may name several properties: "C03/C24 text"
	ids := label
	if i := strings.IndexByte(label, ' '); i >= 0 {
		ids = label[:i]
	}
	for _, id := range strings.Split(ids, "/") {
		if id == p {
			return false
		}
	}
	return true
}

func Cover(label string)   {}
func Reached(label string) {}

// Event records an observation; engine and native traces must agree.
func Event(s string) {
	st.mu.Lock()
	st.events = append(st.events, s)
	st.mu.Unlock()
}

func Eventf(format string, args ...any) { Event(fmt.Sprintf(format, args...)) }

// Quiesce returns when every other goroutine is blocked.  Natively this is
// approximated by yielding and sleeping.
func Quiesce() {
	for i := 0; i < 20; i++ {
		runtime.Gosched()
	}
	time.Sleep(time.Duration(quiesceMs) * time.Millisecond)
	for i := 0; i < 20; i++ {
		runtime.Gosched()
	}
}

// quiesceMs is how long the native Quiesce waits; harnesses whose real code
// sleeps (the message queue's 100 ms retry back-off) raise it.
var quiesceMs = 20

func SetNativeQuiesceMs(ms int) { quiesceMs = ms }

func Yield() { runtime.Gosched() }

// Tick fires the earliest pending virtual timer (engine); natively it waits.
func Tick() bool { time.Sleep(150 * time.Millisecond); return false }

// TickPeriodic fires every pending virtual ticker once (engine); natively it
// waits for one real period of the 100 ms tickers in the code under test.
func TickPeriodic() bool { time.Sleep(120 * time.Millisecond); return false }

// Param returns a harness bound chosen per tier.
func Param(name string, def int) int {
	if v, ok := st.file.Params[name]; ok {
		return int(v)
	}
	return def
}

// Symbolic reports whether the harness runs under the engine.
func Symbolic() bool { return false }

func IsSym(v any) bool { return false }

func Blocked() int { return 0 }

func Finish() {}

// DumpGoroutines records the blocked goroutines (engine only; debugging aid).
func DumpGoroutines() {}

// Stub redirects calls of the named function to fn under the engine (used
// for third-party code that needs reflection, e.g. bindnode).  Natively the
// real function runs.
func Stub(name string, fn any) {}

// ReplayMain runs the entry named in the replay file and reports the result
// on stdout in a form the engine parses.  It returns true when the run ended
// without an assertion failure or panic.
func ReplayMain(entries map[string]func()) bool {
	path := os.Getenv("VERIF_REPLAY")
	b, err := os.ReadFile(path)
	if err != nil {
		fmt.Println("VERIF-REPLAY-ERROR", err)
		return false
	}
	all := true
	var files []ReplayFile
	if err := json.Unmarshal(b, &files); err != nil {
		var one ReplayFile
		if err := json.Unmarshal(b, &one); err != nil {
			fmt.Println("VERIF-REPLAY-ERROR", err)
			return false
		}
		files = []ReplayFile{one}
	}
	for i, f := range files {
		st.file = f
		st.vals = map[string]uint64{}
		st.count = map[string]int{}
		st.events = nil
		for _, in := range f.Inputs {
			st.vals[in.Name] = in.Value
		}
		fn := entries[f.Entry]
		if fn == nil {
			fmt.Println("VERIF-REPLAY-ERROR no entry", f.Entry)
			return false
		}
		outcome := "DONE"
		done := make(chan struct{})
		go func() {
			defer close(done)
			defer func() {
				if r := recover(); r != nil {
					switch r := r.(type) {
					case assertFailed:
						outcome = "ASSERT-FAILED " + r.label
					case assumeFailed:
						outcome = "ASSUME-FAILED"
					case knownFinding:
						outcome = "KNOWN-FINDING " + r.kf + " " + r.label
					default:
						outcome = "PANIC " + strings.ReplaceAll(fmt.Sprint(r), "\n", " ")
					}
				}
			}()
			fn()
		}()
		select {
		case <-done:
		case <-time.After(60 * time.Second):
			outcome = "TIMEOUT"
		}
		st.mu.Lock()
		fmt.Printf("VERIF-REPLAY-BEGIN %d %s\n", i, f.Entry)
		for _, e := range st.events {
			fmt.Println("VERIF-EVENT " + e)
		}
		fmt.Printf("VERIF-REPLAY-END %d %s\n", i, outcome)
		st.mu.Unlock()
		if outcome != "DONE" {
			all = false
		}
	}
	return all
}
