// verif:dir responsemanager/responseassembler
//
// Harness group track (in-package): the real peerLinkTracker, the real
// linktracker.LinkTracker under it and responseBuilder's block/finish
// operations, driven by interleaved operations of up to REQS requests of one
// peer over LINKS links, with symbolic "has block" bits and skip counts.
package responseassembler

import (
	"github.com/ipfs/go-cid"
	"github.com/ipld/go-ipld-prime"
	cidlink "github.com/ipld/go-ipld-prime/linking/cid"

	"github.com/ipfs/go-graphsync"
	"github.com/ipfs/go-graphsync/internal/verifrt"
)

type vreq struct {
	id        graphsync.RequestID
	started   bool
	finished  bool
	scope     int // 0 = no dedup key, 1.. = key index
	skip      int64
	count     int64
	missing   bool
	ignored   []int        // link indexes on the ignore list
	withBlock map[int]bool // links this request traversed with a block (or ignores)
	sentLinks map[int]bool // links actually transmitted for this request
}

func vlink(i int) ipld.Link {
	// identity-multihash CIDs, distinct per index, built without hashing
	b := []byte{0x01, 0x55, 0x00, 0x01, byte(i)}
	_, c, err := cid.CidFromBytes(b)
	if err != nil {
		panic(err)
	}
	return cidlink.Link{Cid: c}
}

func vrid(i int) graphsync.RequestID {
	b := make([]byte, 16)
	b[15] = byte(i + 1)
	id, err := graphsync.ParseRequestID(b)
	if err != nil {
		panic(err)
	}
	return id
}

var vkeys = []string{"", "k1", "k2"}

// VerifTrack_Interleaved explores interleavings of traversals and finishes.
func VerifTrack_Interleaved() {
	nreq := verifrt.Param("REQS", 2)
	nlink := verifrt.Param("LINKS", 2)
	nkeys := verifrt.Param("KEYS", 1) // number of dedup keys besides "none"
	steps := verifrt.Param("STEPS", 4)
	t := newTracker()
	links := make([]ipld.Link, nlink)
	for i := range links {
		links[i] = vlink(i)
	}
	reqs := make([]*vreq, nreq)
	for i := range reqs {
		reqs[i] = &vreq{id: vrid(i), withBlock: map[int]bool{}, sentLinks: map[int]bool{}}
	}
	nstarted := 0
	inScope := func(a, b *vreq) bool { return a.scope == b.scope }

	start := func(r *vreq) {
		r.started = true
		// documented call order of prepareQuery: dedup key, then ignore list,
		// then skip count, all before the first traversal
		r.scope = verifrt.Choose("key", nkeys+1)
		if r.scope > 0 {
			t.DedupKey(r.id, vkeys[r.scope])
		}
		ig := verifrt.Choose("ignore", nlink+1)
		if ig > 0 {
			t.IgnoreBlocks(r.id, []ipld.Link{links[ig-1]})
			r.ignored = append(r.ignored, ig-1)
			r.withBlock[ig-1] = true
		}
		if verifrt.Choose("hasSkip", 2) == 1 {
			r.skip = verifrt.I64("skip")
			t.SkipFirstBlocks(r.id, r.skip)
		}
		verifrt.Eventf("start req=%d scope=%d ignore=%d", len(r.id.Bytes()), r.scope, ig)
	}

	traverse := func(r *vreq, li int) {
		hasBlock := verifrt.Bool("hasBlock")
		var data []byte
		if hasBlock {
			data = []byte{1, 2, 3}
		}
		rb := &responseBuilder{requestID: r.id, linkTracker: t}
		// ghost: was the link transmitted to, or is it tracked for, an
		// in-progress request of the same scope?
		sentInScope, trackedInScope := false, false
		for _, o := range reqs {
			if o.started && !o.finished && inScope(o, r) {
				if o.sentLinks[li] {
					sentInScope = true
				}
				if o.withBlock[li] {
					trackedInScope = true
				}
			}
		}
		op := rb.setupBlockOperation(links[li], data)
		r.count++
		verifrt.Assert(op.index == r.count, "C19 traversal index is not the per-request traversal count")
		if op.sendBlock {
			verifrt.Cover("block-sent")
			verifrt.Assert(hasBlock, "C19 block sent for a link the responder does not have")
			verifrt.Assert(!sentInScope, "C19 block transmitted twice while a request that was sent it is still in progress")
			verifrt.Assert(r.skip < r.count, "C24 block sent although it is among the first blocks the requestor asked to skip")
			r.sentLinks[li] = true
		} else if hasBlock && !trackedInScope {
			verifrt.Cover("not-sent-untracked")
			// nothing in this scope holds the link: the only permitted reason
			// for not sending is the skip count
			verifrt.Assert(r.skip >= r.count, "C19 block withheld although no in-progress request of its scope traversed it")
		}
		if hasBlock {
			r.withBlock[li] = true
		} else {
			r.missing = true
		}
		verifrt.Eventf("traverse scope=%d link=%d send=%v", r.scope, li, op.sendBlock)
	}

	finish := func(r *vreq) {
		rb := &responseBuilder{requestID: r.id, linkTracker: t}
		op := rb.setupFinishOperation()
		r.finished = true
		if r.missing {
			verifrt.Assert(op.status == graphsync.RequestCompletedPartial, "C19 request that met a missing block was reported complete-full")
			verifrt.Cover("finish-partial")
		} else {
			verifrt.Assert(op.status == graphsync.RequestCompletedFull, "C19 request with no missing block was not reported complete-full")
			verifrt.Cover("finish-full")
		}
		verifrt.Eventf("finish scope=%d status=%d", r.scope, int(op.status))
	}

	for s := 0; s < steps; s++ {
		// canonical order: request i may only be touched once i-1 was started
		limit := nstarted + 1
		if limit > nreq {
			limit = nreq
		}
		ri := verifrt.Choose("req", limit)
		r := reqs[ri]
		if r.finished {
			verifrt.Assume(false)
		}
		if !r.started {
			start(r)
			nstarted++
		}
		act := verifrt.Choose("act", nlink+1)
		if act == nlink {
			finish(r)
		} else {
			traverse(r, act)
		}
	}
	// finish everything still in progress
	for _, r := range reqs {
		if r.started && !r.finished {
			finish(r)
		}
	}
	// no residue: nothing is tracked any more ...
	verifrt.Assert(t.linkTracker.Empty(), "C19 default link tracker not empty after all requests finished")
	verifrt.Assert(len(t.altTrackers) == 0, "C19 dedup-key trackers left after all requests finished")
	verifrt.Assert(len(t.dedupKeys) == 0 && len(t.blockSentCount) == 0 && len(t.skipFirstBlocks) == 0, "C19 per-request tracking state left after all requests finished")
	// ... and every link is sent again to a later request, in every scope
	for k := 0; k <= nkeys; k++ {
		fresh := vrid(100 + k)
		if k > 0 {
			t.DedupKey(fresh, vkeys[k])
		}
		rb := &responseBuilder{requestID: fresh, linkTracker: t}
		for li := range links {
			op := rb.setupBlockOperation(links[li], []byte{9})
			verifrt.Assert(op.sendBlock, "C19 block not sent again to a later request after all earlier requests finished")
		}
		rb.setupFinishOperation()
	}
	verifrt.Reached("end-track")
}
