// verif:dir zz_verif/reqmgr
package reqmgr

import (
	"github.com/ipld/go-ipld-prime"
	"github.com/ipld/go-ipld-prime/datamodel"
	"github.com/ipld/go-ipld-prime/linking"
	"github.com/libp2p/go-libp2p/core/peer"

	"github.com/ipfs/go-graphsync"
	"github.com/ipfs/go-graphsync/internal/verifrt"
	"github.com/ipfs/go-graphsync/panics"
	"github.com/ipfs/go-graphsync/zz_verif/kit"
)

const (
	rpDecoder = iota
	rpChooser
	rpStorageRead
	rpStorageWrite
	rpStorageCommit
	nReqPanicSites
)

// VerifReq_Panic (C22, requestor): a panic raised by a user-supplied function
// while block j of one request is handled becomes an error of that request;
// the process keeps running and another request is unaffected.
func VerifReq_Panic() {
	verifrt.SetNativeQuiesceMs(200)
	k := 3
	site := verifrt.Choose("panic-site", nReqPanicSites)
	at := verifrt.Choose("panic-at-block", k)
	// block 0 local, the rest remote: both the local and the remote load paths run
	localFirst := verifrt.Choose("first-block-local", 2) == 1
	local := []bool{localFirst, false, false}
	e := NewEnv(kit.Chain(k), local, 1, 0)
	pA := peer.ID("peerA")
	fired := false
	boom := func(i int) {
		if i == at && !fired {
			fired = true
			panic("verif: injected panic")
		}
	}
	writes := 0
	switch site {
	case rpDecoder:
		e.Store.OnDecode = boom
	case rpStorageRead:
		e.Store.OnRead = boom
	case rpStorageWrite:
		e.Store.OnWrite = func() {
			// the at-th write opened
			if writes == at && !fired {
				fired = true
				panic("verif: injected panic")
			}
			writes++
		}
	case rpStorageCommit:
		e.Store.OnCommit = boom
	case rpChooser:
		e.Chooser = func(l ipld.Link, lc linking.LinkContext) (datamodel.NodePrototype, error) {
			boom(kit.LinkIndex(l))
			return kit.Chooser(l, lc)
		}
	}
	full := func(skip int64) []RespItem {
		items, _ := RefResponder(e.Store.D, func(int) bool { return true }, skip)
		return items
	}
	answer := func(rq *Req) {
		news := e.RequestsTo(pA, rq.ID, graphsync.RequestTypeNew)
		if len(news) > 0 {
			skip, _ := SkipOf(news[len(news)-1])
			e.Deliver(pA, rq.ID, full(skip), graphsync.RequestCompletedFull)
		}
	}
	rq := e.Start(pA, 0)
	kit.Drain()
	answer(rq)
	kit.Drain()
	// a second request afterwards (everything it needs is now partly local)
	rq2 := e.Start(pA, 1)
	kit.Drain()
	answer(rq2)
	kit.Drain()
	count := func(r *Req) int {
		n := 0
		for _, err := range r.Errors {
			if _, ok := err.(panics.RecoveredPanicErr); ok {
				n++
			}
		}
		return n
	}
	// the panic fires in whichever request first calls the function for that
	// block: that one is the victim, the other must be unaffected
	victim, other := rq, rq2
	if count(rq) == 0 && count(rq2) > 0 {
		victim, other = rq2, rq
	}
	recovered := count(victim)
	verifrt.Eventf("site=%d at=%d fired=%v callback=%d recovered=%d victim-errors=%d done=%v/%v other: errors=%d delivered=%d done=%v/%v", site, at, fired, len(e.Panics), recovered, len(victim.Errors), victim.ProgDone, victim.ErrDone, len(other.Errors), len(other.Progress), other.ProgDone, other.ErrDone)
	if !fired {
		// the chosen function is not called for that block in this configuration
		// (e.g. no storage write for a block that is local)
		verifrt.Cover("panic-site-not-reached")
		verifrt.Reached("end-panic")
		return
	}
	verifrt.Cover("panic-fired")
	verifrt.Assert(len(e.Panics) == 1, "C22 the panic callback was not called exactly once for the panic")
	verifrt.Assert(recovered == 1, "C22 the panic was not reported as an error of the request it happened in")
	verifrt.Assert(victim.ProgDone && victim.ErrDone, "C22 the channels of the request whose code panicked were not closed")
	verifrt.Assert(len(other.Errors) == 0 && other.ProgDone && other.ErrDone && len(other.Progress) > 0, "C22 another request was affected by the panic")
	verifrt.Reached("end-panic")
}
