// verif:dir zz_verif/reqmgr
//
// Harness group reqmgr: the real RequestManager (run loop, every handler,
// response collector), the real Executor, ReconciledLoader, traversal record,
// path tracker, remote queue, the real WorkerTaskQueue and the real ipldutil
// traverser over go-ipld-prime.  Stubs: the peer handler (captures the
// messages the requestor builds), hooks (verdicts chosen by the harness), the
// responder (a reference model, or an arbitrary adversary).
package reqmgr

import (
	"context"
	"fmt"

	blocks "github.com/ipfs/go-block-format"
	"github.com/ipfs/go-peertaskqueue/peertask"
	"github.com/ipld/go-ipld-prime"
	"github.com/ipld/go-ipld-prime/datamodel"
	"github.com/ipld/go-ipld-prime/traversal"
	cidlink "github.com/ipld/go-ipld-prime/linking/cid"
	"github.com/libp2p/go-libp2p/core/peer"

	"github.com/ipfs/go-graphsync"
	"github.com/ipfs/go-graphsync/donotsendfirstblocks"
	"github.com/ipfs/go-graphsync/internal/verifrt"
	"github.com/ipfs/go-graphsync/listeners"
	gsmsg "github.com/ipfs/go-graphsync/message"
	"github.com/ipfs/go-graphsync/messagequeue"
	"github.com/ipfs/go-graphsync/requestmanager"
	"github.com/ipfs/go-graphsync/requestmanager/executor"
	"github.com/ipfs/go-graphsync/requestmanager/hooks"
	"github.com/ipfs/go-graphsync/taskqueue"
	"github.com/ipfs/go-graphsync/zz_verif/kit"
)

// Out is one message the requestor handed to its peer handler.
type Out struct {
	To   peer.ID
	Reqs []gsmsg.GraphSyncRequest
}

type Delivered struct {
	Path      string
	BlockPath string
	Block     int
	IsRoot    bool // the node is the root node of its block
	V         int  // value of the block's "v" entry when IsRoot, else -1
}

type Req struct {
	ID       graphsync.RequestID
	Ctx      context.Context
	Cancel   context.CancelFunc
	Progress []Delivered
	Errors   []error
	ProgDone bool
	ErrDone  bool
	// AfterClose: something was delivered after the channel was observed closed (impossible by construction; kept for symmetry)
}

type Env struct {
	Ctx    context.Context
	Cancel context.CancelFunc
	RM     *requestmanager.RequestManager
	TQ     *taskqueue.WorkerTaskQueue
	Ex     *executor.Executor
	Store  *kit.Store
	// AltStore, when set, is the store of the persistence option "alt"; the
	// outgoing-request hook selects it for every request that carries a
	// dedup-by-key extension (the documented use of that extension)
	AltStore *kit.Store
	Sent   []Out
	// FailSends: building a message reports a network Error to its subscribers
	// (send failure) instead of Sent
	FailSends bool

	RespHookErrFor  map[peer.ID]bool // response hook returns an error for responses from this peer
	RespHookExtFor  map[peer.ID]bool // response hook returns extensions for responses from this peer
	RespHookCalls   map[peer.ID]int
	BlockHookCalls  int
	BlockHookSaw    []string
	BlockHookPause  int // block hook returns ErrPaused at this block index (1-based), 0 never
	BlockHookErrAt  int
	// Stack, when set, replaces the synchronous message stub by the real
	// sending stack; what leaves is recorded through its Net.OnSent
	Stack *kit.Stack
	// OnGoOnline, when set, runs on the executor's goroutine right before the
	// request's loader is switched online (first local miss)
	OnGoOnline func()
	// BlockHookDo, when set, runs inside every incoming-block hook call (on the
	// executor's goroutine) before the hook's verdict is taken: a hook that is
	// slow, or that itself cancels / pauses
	BlockHookDo func(index int)
	MaxLinksPerReq  uint64
	NetErrs         int
	Protects        map[string]int
	Unprotects      map[string]int
	Reqs            []*Req
	Chooser         traversal.LinkTargetNodePrototypeChooser
	Panics          []any
	// DelayRelease: see slowManager
	DelayRelease bool
	// OnSend, when set, receives every message the requestor builds (the wire)
	OnSend func(p peer.ID, reqs []gsmsg.GraphSyncRequest)
}

// slowManager is the manager handed to the executor: the real RequestManager,
// except that (when DelayRelease is set) the executor's goroutine is
// descheduled right before it reports the end of a task, until every other
// goroutine has run as far as it can.
type slowManager struct {
	*requestmanager.RequestManager
	e *Env
}

// GetRequestTask hands the executor the real task, with its loader wrapped so
// that the harness can act at the moment the executor goes online.
func (m *slowManager) GetRequestTask(p peer.ID, task *peertask.Task, out chan executor.RequestTask) {
	if m.e.OnGoOnline == nil {
		m.RequestManager.GetRequestTask(p, task, out)
		return
	}
	in := make(chan executor.RequestTask, 1)
	m.RequestManager.GetRequestTask(p, task, in)
	// (the executor itself receives from out: forward from a goroutine)
	go func() {
		rt := <-in
		if !rt.Empty {
			rt.ReconciledLoader = &slowLoader{ReconciledLoader: rt.ReconciledLoader, e: m.e}
		}
		out <- rt
	}()
}

type slowLoader struct {
	executor.ReconciledLoader
	e *Env
}

func (l *slowLoader) SetRemoteOnline(online bool) {
	if online && l.e.OnGoOnline != nil {
		l.e.OnGoOnline()
	}
	l.ReconciledLoader.SetRemoteOnline(online)
}

func (m *slowManager) ReleaseRequestTask(p peer.ID, task *peertask.Task, err error) {
	if m.e.DelayRelease {
		verifrt.Quiesce()
	}
	m.RequestManager.ReleaseRequestTask(p, task, err)
}

// persist: the requestor's persistence options: one alternate store "alt"
// when the harness set Env.AltStore
type persist struct{ e *Env }

func (p persist) GetLinkSystem(name string) (ipld.LinkSystem, bool) {
	if p.e != nil && p.e.AltStore != nil && name == "alt" {
		return p.e.AltStore.LinkSystem(), true
	}
	return ipld.LinkSystem{}, false
}

func NewEnv(dag *kit.DAG, has []bool, workers int, maxLinksGlobal uint64) *Env {
	ctx, cancel := context.WithCancel(context.Background())
	e := &Env{Ctx: ctx, Cancel: cancel, RespHookErrFor: map[peer.ID]bool{}, RespHookExtFor: map[peer.ID]bool{}, RespHookCalls: map[peer.ID]int{}, Protects: map[string]int{}, Unprotects: map[string]int{}}
	// the dag-cbor byte encoder (refmt) is outside the engine's reach; the
	// request manager only uses it to validate that the selector encodes
	verifrt.Stub("github.com/ipld/go-ipld-prime.Encode", func(n datamodel.Node, enc ipld.Encoder) ([]byte, error) { return []byte{}, nil })
	e.Store = kit.NewStore(dag, has)
	e.TQ = taskqueue.NewTaskQueue(ctx)
	nel := listeners.NewNetworkErrorListeners()
	nel.Register(func(p peer.ID, r graphsync.RequestData, err error) { e.NetErrs++ })
	e.Chooser = kit.Chooser
	e.RM = requestmanager.New(ctx, persist{e}, e.Store.LinkSystem(), e, e, nel, listeners.NewRequestProcessingListeners(), e.TQ, e, maxLinksGlobal, func(obj any, stack string) { e.Panics = append(e.Panics, obj) })
	e.RM.SetDelegate(e)
	e.Ex = executor.NewExecutor(&slowManager{RequestManager: e.RM, e: e}, e)
	if workers > 0 {
		e.TQ.Startup(uint64(workers), e.Ex)
	}
	e.RM.Startup()
	return e
}

// --- peer handler

func (e *Env) AllocateAndBuildMessage(p peer.ID, size uint64, fn func(*messagequeue.Builder)) {
	if e.Stack != nil {
		// the real sending stack (peer manager, message queues, allocator)
		e.Stack.PMM.AllocateAndBuildMessage(p, size, fn)
		return
	}
	b := messagequeue.NewBuilder(e.Ctx, messagequeue.Topic(len(e.Sent)))
	fn(b)
	m, _ := b.Build()
	e.Sent = append(e.Sent, Out{To: p, Reqs: m.Requests()})
	if e.OnSend != nil && !e.FailSends {
		e.OnSend(p, m.Requests())
	}
	name := messagequeue.Sent
	var err error
	if e.FailSends {
		name = messagequeue.Error
		err = fmt.Errorf("stub: send failed")
	}
	for _, sub := range b.Subscribers() {
		sub.OnNext(messagequeue.Topic(len(e.Sent)-1), messagequeue.Event{Name: name, Err: err})
		sub.OnClose(messagequeue.Topic(len(e.Sent) - 1))
	}
}

// --- hooks

func (e *Env) ProcessRequestHooks(p peer.ID, request graphsync.RequestData) hooks.RequestResult {
	res := hooks.RequestResult{CustomChooser: e.Chooser, MaxLinks: e.MaxLinksPerReq}
	if e.AltStore != nil {
		if _, has := request.Extension(graphsync.ExtensionDeDupByKey); has {
			res.PersistenceOption = "alt"
		}
	}
	return res
}

func (e *Env) ProcessResponseHooks(p peer.ID, response graphsync.ResponseData) hooks.UpdateResult {
	e.RespHookCalls[p]++
	r := hooks.UpdateResult{}
	if e.RespHookExtFor[p] {
		r.Extensions = []graphsync.ExtensionData{{Name: "resp/ext", Data: kit.ExtNode()}}
	}
	if e.RespHookErrFor[p] {
		r.Err = fmt.Errorf("stub: response hook error")
	}
	return r
}

func (e *Env) ProcessBlockHooks(p peer.ID, response graphsync.ResponseData, block graphsync.BlockData) hooks.UpdateResult {
	e.BlockHookCalls++
	// what the hook is shown about the response (must stem from the request's own peer)
	e.BlockHookSaw = append(e.BlockHookSaw, fmt.Sprintf("%d/%d", response.Status(), response.Metadata().Length()))
	if e.BlockHookDo != nil {
		e.BlockHookDo(int(block.Index()))
	}
	if e.BlockHookErrAt != 0 && int(block.Index()) == e.BlockHookErrAt {
		return hooks.UpdateResult{Err: fmt.Errorf("stub: block hook error")}
	}
	if e.BlockHookPause != 0 && int(block.Index()) == e.BlockHookPause {
		return hooks.UpdateResult{Err: hooks.ErrPaused{}}
	}
	return hooks.UpdateResult{}
}

// --- conn manager

func (e *Env) Protect(p peer.ID, tag string)        { e.Protects[string(p)+"/"+tag]++ }
func (e *Env) Unprotect(p peer.ID, tag string) bool { e.Unprotects[string(p)+"/"+tag]++; return false }

// --- requests

// Start issues request r to peer p and spawns the two readers that keep
// reading the returned channels, as the property's proviso demands.
func (e *Env) Start(p peer.ID, r int, exts ...graphsync.ExtensionData) *Req {
	return e.StartAt(p, r, 0, exts...)
}

// StartAt issues request r for the DAG below block root.
func (e *Env) StartAt(p peer.ID, r int, root int, exts ...graphsync.ExtensionData) *Req {
	rq := &Req{ID: kit.ReqID(r)}
	ctx := context.WithValue(e.Ctx, graphsync.RequestIDContextKey{}, rq.ID)
	rq.Ctx, rq.Cancel = context.WithCancel(ctx)
	prog, errs := e.RM.NewRequest(rq.Ctx, p, kit.Link(root), kit.AllSelector(), exts...)
	go func() {
		for pr := range prog {
			d := Delivered{Path: pr.Path.String(), BlockPath: pr.LastBlock.Path.String(), Block: -1, V: -1}
			if pr.LastBlock.Link != nil {
				d.Block = kit.LinkIndex(pr.LastBlock.Link)
			} else if d.BlockPath == "" {
				d.Block = root // the root block is loaded directly, not through a link edge
			}
			if d.Path == d.BlockPath && pr.Node.Kind() == datamodel.Kind_Map {
				d.IsRoot = true
				if v, err := pr.Node.LookupByString("v"); err == nil {
					if n, err := v.AsInt(); err == nil {
						d.V = int(n)
					}
				}
			}
			rq.Progress = append(rq.Progress, d)
		}
		rq.ProgDone = true
	}()
	go func() {
		for err := range errs {
			rq.Errors = append(rq.Errors, err)
		}
		rq.ErrDone = true
	}()
	e.Reqs = append(e.Reqs, rq)
	return rq
}

// LastRequestTo returns the most recent request of the given type and id sent
// to p, and how many such were sent.
func (e *Env) RequestsTo(p peer.ID, id graphsync.RequestID, typ graphsync.RequestType) []gsmsg.GraphSyncRequest {
	var out []gsmsg.GraphSyncRequest
	for _, o := range e.Sent {
		if o.To != p {
			continue
		}
		for _, rq := range o.Reqs {
			if rq.ID() == id && rq.Type() == typ {
				out = append(out, rq)
			}
		}
	}
	return out
}

// SkipOf decodes the do-not-send-first-blocks extension of a request (0 if absent).
func SkipOf(rq gsmsg.GraphSyncRequest) (int64, bool) {
	nd, has := rq.Extension(graphsync.ExtensionsDoNotSendFirstBlocks)
	if !has {
		return 0, false
	}
	n, err := donotsendfirstblocks.DecodeDoNotSendFirstBlocks(nd)
	if err != nil {
		return -1, true
	}
	return n, true
}

// --- the reference responder

// RespItem is one link-metadata entry, optionally with its block.
type RespItem struct {
	Link    int
	Present bool
	Block   bool
}

// RefResponder is what an honest responder sends for the explore-all request
// over dag with store has, skipping the block data of the first skip link
// loads and of links it already sent in this response.
func RefResponder(dag *kit.DAG, has func(int) bool, skip int64) ([]RespItem, graphsync.ResponseStatusCode) {
	visits := kit.RefTraversal(dag, has)
	sent := map[int]bool{}
	var items []RespItem
	missing := false
	for i, v := range visits {
		it := RespItem{Link: v.Link, Present: v.Present}
		if v.Present && int64(i+1) > skip && !sent[v.Link] {
			it.Block = true
			sent[v.Link] = true
		}
		if !v.Present {
			missing = true
		}
		items = append(items, it)
	}
	status := graphsync.RequestCompletedFull
	if !visits[0].Present {
		status = graphsync.RequestFailedContentNotFound
	} else if missing {
		status = graphsync.RequestCompletedPartial
	}
	return items, status
}

// Resp is one response of a multi-response message.
type Resp struct {
	ID     graphsync.RequestID
	Items  []RespItem
	Status graphsync.ResponseStatusCode
}

// DeliverMulti hands one message carrying several responses (in the given
// order) to the requestor as coming from peer p.
func (e *Env) DeliverMulti(p peer.ID, resps []Resp) {
	var out []gsmsg.GraphSyncResponse
	var blks []blocks.Block
	seen := map[int]bool{}
	for _, r := range resps {
		var md []gsmsg.GraphSyncLinkMetadatum
		for _, it := range r.Items {
			act := graphsync.LinkActionMissing
			if it.Present {
				act = graphsync.LinkActionPresent
			}
			md = append(md, gsmsg.GraphSyncLinkMetadatum{Link: kit.Cid(it.Link), Action: act})
			if it.Block && !seen[it.Link] {
				seen[it.Link] = true
				b, _ := blocks.NewBlockWithCid([]byte{byte(it.Link)}, kit.Cid(it.Link))
				blks = append(blks, b)
			}
		}
		out = append(out, gsmsg.NewResponse(r.ID, r.Status, md))
	}
	e.RM.ProcessResponses(p, out, blks)
}

// Deliver hands one response message with the given items and status to the
// requestor as coming from peer p.
func (e *Env) Deliver(p peer.ID, id graphsync.RequestID, items []RespItem, status graphsync.ResponseStatusCode) {
	var md []gsmsg.GraphSyncLinkMetadatum
	var blks []blocks.Block
	seen := map[int]bool{}
	for _, it := range items {
		act := graphsync.LinkActionMissing
		if it.Present {
			act = graphsync.LinkActionPresent
		}
		md = append(md, gsmsg.GraphSyncLinkMetadatum{Link: kit.Cid(it.Link), Action: act})
		if it.Block && !seen[it.Link] {
			seen[it.Link] = true
			b, _ := blocks.NewBlockWithCid([]byte{byte(it.Link)}, kit.Cid(it.Link))
			blks = append(blks, b)
		}
	}
	rsp := gsmsg.NewResponse(id, status, md)
	e.RM.ProcessResponses(p, []gsmsg.GraphSyncResponse{rsp}, blks)
}

var _ = cidlink.Link{}
