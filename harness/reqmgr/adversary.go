// verif:dir zz_verif/reqmgr
package reqmgr

import (
	"fmt"

	"github.com/libp2p/go-libp2p/core/peer"

	"github.com/ipfs/go-graphsync"
	"github.com/ipfs/go-graphsync/internal/verifrt"
	"github.com/ipfs/go-graphsync/zz_verif/kit"
)

// chooseItems lets the adversary pick up to max metadata items over the links
// 0..n (n is a foreign link that is not part of the DAG): missing, present
// without block, present with its block.  The blocks themselves are keyed by
// the CID of their bytes (that is what message decoding guarantees, C12), so
// the adversary cannot attach foreign bytes to a CID, only send wrong,
// reordered, extra, duplicated or omitted links and blocks.
func chooseItems(n, max int) []RespItem {
	k := verifrt.Choose("items", max+1)
	items := make([]RespItem, 0, k)
	for i := 0; i < k; i++ {
		l := verifrt.Choose("item-link", n+1)
		switch verifrt.Choose("item-kind", 3) {
		case 0:
			items = append(items, RespItem{Link: l})
		case 1:
			items = append(items, RespItem{Link: l, Present: true})
		case 2:
			items = append(items, RespItem{Link: l, Present: true, Block: true})
		}
	}
	return items
}

func itemsString(items []RespItem) string {
	s := ""
	for _, it := range items {
		k := "M"
		if it.Present {
			k = "P"
		}
		if it.Block {
			k = "B"
		}
		s += fmt.Sprintf("%d%s ", it.Link, k)
	}
	return s
}

// VerifReq_Adversarial (C01): whatever link metadata and blocks the responder
// sends, every node delivered and every block stored is the genuine content
// of a link the local traversal asked for.
func VerifReq_Adversarial() {
	verifrt.SetNativeQuiesceMs(200)
	n := 1 + verifrt.Choose("blocks", verifrt.Param("BLOCKS", 2))
	dag := kit.ChooseDAG(n, 0, verifrt.Param("SHARED", 0) == 1, verifrt.Choose)
	local := make([]bool, n)
	for i := 0; i < n; i++ {
		local[i] = verifrt.Bool("local")
	}
	// a block the adversary may attach for the foreign link n decodes to an
	// unknown block (table decoder error): widen the table by one leaf
	e := NewEnv(dag, local, 1, 0)
	pA := peer.ID("peerA")
	maxItems := verifrt.Param("ITEMS", 2)
	// optionally hold the executor inside its first local read, so that a
	// response arrives while the loader exists but is still offline
	var gate *kit.Gate
	if verifrt.Param("EARLY", 1) == 1 && verifrt.Choose("early-message", 2) == 1 {
		gate = kit.NewGate()
		hit := false
		e.Store.OnRead = func(i int) {
			if i == 0 && !hit {
				hit = true
				gate.Wait()
			}
		}
	}
	rq := e.Start(pA, 0)
	kit.Drain()
	desc := ""
	if gate != nil {
		items := chooseItems(n, maxItems)
		desc += "early[" + itemsString(items) + "] "
		e.Deliver(pA, rq.ID, items, graphsync.PartialResponse)
		kit.Drain()
		gate.Open()
		kit.Drain()
		verifrt.Cover("early-message")
	}
	msgs := verifrt.Param("MSGS", 2)
	terminal := false
	for m := 0; m < msgs && !terminal; m++ {
		items := chooseItems(n, maxItems)
		st := graphsync.PartialResponse
		if verifrt.Choose("terminal", 2) == 1 {
			st = graphsync.RequestCompletedFull
			terminal = true
		}
		desc += fmt.Sprintf("msg[%s]%d ", itemsString(items), st)
		e.Deliver(pA, rq.ID, items, st)
		if verifrt.Choose("drain-between", 2) == 1 {
			kit.Drain()
		}
	}
	if !terminal {
		e.Deliver(pA, rq.ID, nil, graphsync.RequestCompletedFull)
	}
	kit.Drain()
	verifrt.Event(desc)
	verifrt.Eventf("delivered=%d errors=%d commits=%v writes=%v done=%v/%v", len(rq.Progress), len(rq.Errors), e.Store.Commits, e.Store.Writes, rq.ProgDone, rq.ErrDone)
	for _, d := range rq.Progress {
		if d.IsRoot {
			verifrt.Assert(d.V == d.Block, "C01 delivered node is not the content of the link it was loaded for")
			verifrt.Assert(d.Block >= 0 && d.Block < n, "C01 delivered node belongs to a block outside the requested DAG")
			verifrt.Cover("node-delivered")
		}
	}
	for i, c := range e.Store.Commits {
		verifrt.Assert(e.Store.Writes[i] == c, "C01 block stored under a link it does not hash to")
		verifrt.Assert(c >= 0 && c < n, "C01 a block outside the requested DAG was stored")
		verifrt.Cover("block-stored")
	}
	// reachability: a stored or delivered block other than the root must be a
	// child of a block that was itself delivered
	deliveredBlock := map[int]bool{}
	for _, d := range rq.Progress {
		if d.IsRoot {
			deliveredBlock[d.Block] = true
		}
	}
	for _, c := range e.Store.Commits {
		ok := c == 0
		for p := 0; p < n && !ok; p++ {
			if deliveredBlock[p] {
				for _, k := range dag.Kids[p] {
					if k == c {
						ok = true
					}
				}
			}
		}
		verifrt.Assert(ok, "C01 a block was stored that the traversal had not reached")
	}
	verifrt.Assert(rq.ProgDone && rq.ErrDone, "C04 result channels not closed although the responder sent a terminal status")
	verifrt.Reached("end-adversarial")
}
