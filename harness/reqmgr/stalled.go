// verif:dir zz_verif/reqmgr
package reqmgr

import (
	"github.com/libp2p/go-libp2p/core/peer"

	"github.com/ipfs/go-graphsync"
	gsmsg "github.com/ipfs/go-graphsync/message"
	"github.com/ipfs/go-graphsync/internal/verifrt"
	"github.com/ipfs/go-graphsync/zz_verif/kit"
)

// VerifReq_Stalled (C25, requestor side): the connection to peer P is stalled
// (its sender never returns), while requests to P are started, cancelled,
// paused or resumed; a request to peer Q is still sent, Q's responses are
// processed and Q's request completes.  The real sending stack (peer manager,
// message queues) sits under the real requestor.
func VerifReq_Stalled() {
	verifrt.SetNativeQuiesceMs(300)
	dag := kit.Chain(2)
	e := NewEnv(dag, []bool{false, false}, 3, 0)
	e.Stack = kit.NewStack(1<<40, 1<<30, 1)
	e.Stack.Net.NoFaults = true
	pP, pQ := peer.ID("peerP"), peer.ID("peerQ")
	e.Stack.Net.SendGate = map[peer.ID]*kit.Gate{pP: kit.NewGate()} // never opened
	e.Stack.Net.OnSent = func(to peer.ID, m gsmsg.GraphSyncMessage) {
		e.Sent = append(e.Sent, Out{To: to, Reqs: m.Requests()})
	}
	rp := e.Start(pP, 0)
	kit.Drain()
	nev := verifrt.Param("EVENTS", 2)
	var rp2 *Req
	for i := 0; i < nev; i++ {
		switch verifrt.Choose("p-event", 5) {
		case 0:
			if rp2 != nil {
				verifrt.Assume(false)
			}
			rp2 = e.Start(pP, 1)
		case 1:
			rp.Cancel()
		case 2:
			go func() { _ = e.RM.CancelRequest(e.Ctx, rp.ID) }()
		case 3:
			go func() { _ = e.RM.PauseRequest(e.Ctx, rp.ID) }()
		case 4:
			go func() { _ = e.RM.UnpauseRequest(e.Ctx, rp.ID) }()
		}
		kit.Drain()
	}
	verifrt.Assert(len(e.RequestsTo(pP, rp.ID, graphsync.RequestTypeNew)) == 0, "harness: the stalled peer received a message")
	// the request to Q
	rq := e.Start(pQ, 5)
	kit.Drain()
	news := e.RequestsTo(pQ, rq.ID, graphsync.RequestTypeNew)
	verifrt.Assert(len(news) == 1, "C25 a request to another peer was not sent while one peer's connection was stalled")
	items, st := RefResponder(dag, func(int) bool { return true }, 0)
	e.Deliver(pQ, rq.ID, items, st)
	kit.Drain()
	verifrt.Eventf("q: delivered=%d errors=%d done=%v/%v", len(rq.Progress), len(rq.Errors), rq.ProgDone, rq.ErrDone)
	verifrt.Assert(rq.ProgDone && rq.ErrDone && len(rq.Errors) == 0 && len(rq.Progress) > 0, "C25 responses from another peer were not processed while one peer's connection was stalled")
	verifrt.Cover("q-served")
	verifrt.Reached("end-req-stalled")
}
