// verif:dir zz_verif/reqmgr
package reqmgr

import (
	"errors"

	"github.com/ipld/go-ipld-prime/traversal"
	"github.com/libp2p/go-libp2p/core/peer"

	"github.com/ipfs/go-graphsync"
	"github.com/ipfs/go-graphsync/internal/verifrt"
	"github.com/ipfs/go-graphsync/zz_verif/kit"
)

// VerifReq_Budget (C07, requestor): the same rule on the requesting side, with
// the global outgoing budget g and the per-request budget r set by a request
// hook.
func VerifReq_Budget() {
	verifrt.SetNativeQuiesceMs(200)
	k := 1 + verifrt.Choose("blocks", verifrt.Param("KMAX", 3))
	g := verifrt.U64("global-budget")
	_ = g // every 64-bit value
	local := make([]bool, k)
	localAll := verifrt.Choose("all-local", 2) == 1
	for i := range local {
		local[i] = localAll
	}
	e := NewEnv(kit.Chain(k), local, 1, g)
	pA := peer.ID("peerA")
	// two requests one after the other, each with its own per-request budget
	nreq := verifrt.Param("REQS", 2)
	for q := 0; q < nreq; q++ {
		r := verifrt.U64("request-budget")
		_ = r // every 64-bit value
		e.MaxLinksPerReq = r
		rq := e.Start(pA, q)
		kit.Drain()
		if news := e.RequestsTo(pA, rq.ID, graphsync.RequestTypeNew); len(news) > 0 {
			skip, _ := SkipOf(news[0])
			items, st := RefResponder(e.Store.D, func(int) bool { return true }, skip)
			e.Deliver(pA, rq.ID, items, st)
			kit.Drain()
		}
		loaded := uint64(0)
		for _, d := range rq.Progress {
			if d.IsRoot {
				loaded++
			}
		}
		exceeded := false
		for _, err := range rq.Errors {
			var be *traversal.ErrBudgetExceeded
			if errors.As(err, &be) {
				exceeded = true
			}
		}
		verifrt.Eventf("req%d k=%d loaded=%d errors=%d exceeded=%v done=%v/%v", q, k, loaded, len(rq.Errors), exceeded, rq.ProgDone, rq.ErrDone)
		n := g
		if g == 0 || (r != 0 && r < g) {
			n = r
		}
		verifrt.Assert(rq.ProgDone && rq.ErrDone, "C04 result channels not closed")
		if n == 0 || uint64(k) <= n {
			verifrt.Cover("within-budget")
			verifrt.Assert(loaded == uint64(k) && len(rq.Errors) == 0, "C07 a traversal needing at most N blocks failed or stopped early under the effective budget N")
		} else {
			verifrt.Cover("over-budget")
			verifrt.Assert(loaded == n, "C07 an over-budget traversal did not load exactly N blocks (N = smaller non-zero of the global and per-request budgets)")
			verifrt.Assert(exceeded, "C07 an over-budget request did not end with a budget-exceeded error")
		}
	}
	verifrt.Reached("end-budget")
}
