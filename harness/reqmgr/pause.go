// verif:dir zz_verif/reqmgr
package reqmgr

import (
	"fmt"

	"github.com/libp2p/go-libp2p/core/peer"

	"github.com/ipfs/go-graphsync"
	"github.com/ipfs/go-graphsync/donotsendfirstblocks"
	"github.com/ipfs/go-graphsync/internal/verifrt"
	"github.com/ipfs/go-graphsync/zz_verif/kit"
)

const (
	rpNone = iota
	rpBlockHook // incoming block hook pauses at block index j
	rpAPI       // PauseRequest issued right before the response data arrives
	nReqPauseModes
)

// reqExchange runs one request against the reference responder, optionally
// pausing it at block j and resuming it, and returns what the caller saw.
// stale: 0 = the whole first response arrives before the pause takes effect;
// 1 = only its first part does and the remainder arrives after the resume
// (the responder had sent it before it saw the cancel); 2 = only its first
// part does and the remainder never arrives (the responder stopped at the
// cancel).
// withheld (third result): a re-request that asked to skip leading blocks was
// answered, and in the end a block that the responder holds was reported
// missing: the responder withheld a block only it could supply.
func reqExchange(dag *kit.DAG, local, remote []bool, mode, at int, stale int, exts []graphsync.ExtensionData) (string, bool, bool) {
	e := NewEnv(dag, append([]bool(nil), local...), 1, 0)
	pA := peer.ID("peerA")
	if mode == rpBlockHook {
		e.BlockHookPause = at
	}
	rq := e.Start(pA, 0, exts...)
	kit.Drain()
	answered := 0
	var lastItems []RespItem
	var lastStatus graphsync.ResponseStatusCode
	var inFlight []RespItem // remainder of a response that is still on its way
	skipResumed := false
	respond := func() {
		news := e.RequestsTo(pA, rq.ID, graphsync.RequestTypeNew)
		if len(news) > answered {
			answered = len(news)
			skip, _ := SkipOf(news[len(news)-1])
			if answered > 1 && skip > 0 {
				skipResumed = true
			}
			lastItems, lastStatus = RefResponder(dag, func(i int) bool { return remote[i] }, skip)
			if stale != 0 && answered == 1 && len(lastItems) > 1 {
				// only the first part of the first response arrives before the pause
				cut := 1 + verifrt.Choose("arrived-before-pause", len(lastItems)-1)
				e.Deliver(pA, rq.ID, lastItems[:cut], graphsync.PartialResponse)
				inFlight = lastItems[cut:]
				return
			}
			e.Deliver(pA, rq.ID, lastItems, lastStatus)
		}
	}
	if mode == rpAPI {
		_ = e.RM.PauseRequest(e.Ctx, rq.ID)
	}
	respond()
	kit.Drain()
	wasPaused := false
	for round := 0; round < 6; round++ {
		st, ok := e.RM.PeerState(pA).RequestStates[rq.ID]
		if ok && st == graphsync.Paused {
			wasPaused = true
			e.BlockHookPause = 0
			_ = e.RM.UnpauseRequest(e.Ctx, rq.ID)
			kit.Drain()
			if inFlight != nil && stale == 1 {
				// the rest of the old response (the responder had sent it before
				// it saw the cancel) arrives after the request was resumed and
				// re-sent
				e.Deliver(pA, rq.ID, inFlight, lastStatus)
				kit.Drain()
			}
			inFlight = nil
			respond()
			kit.Drain()
			continue
		}
		if ok && inFlight != nil {
			// not paused (yet): the rest of the response simply arrives
			e.Deliver(pA, rq.ID, inFlight, lastStatus)
			inFlight = nil
			kit.Drain()
			continue
		}
		break
	}
	heldButMissing := false
	out := "loads="
	for _, d := range rq.Progress {
		if d.IsRoot {
			out += fmt.Sprintf("%d@%s,", d.Block, d.BlockPath)
		}
	}
	out += fmt.Sprintf(" nodes=%d errors=", len(rq.Progress))
	for _, err := range rq.Errors {
		if me, ok := err.(graphsync.RemoteMissingBlockErr); ok {
			out += fmt.Sprintf("missing%d,", kit.LinkIndex(me.Link))
			if b := kit.LinkIndex(me.Link); b >= 0 && b < len(remote) && remote[b] {
				heldButMissing = true
			}
		} else {
			out += fmt.Sprintf("[%v],", err)
		}
	}
	has := ""
	for i := range dag.Nodes {
		if i < len(e.Store.Has) && e.Store.Has[i] {
			has += fmt.Sprintf("%d,", i)
		}
	}
	out += fmt.Sprintf(" stored=%s done=%v/%v", has, rq.ProgDone, rq.ErrDone)
	return out, wasPaused, skipResumed && heldButMissing
}

// VerifReq_PauseResume (C06, requestor): pausing a request at any block
// (block hook or API) and resuming it yields the same delivered nodes,
// missing-block errors and stored blocks as the uninterrupted exchange.
func VerifReq_PauseResume() {
	verifrt.SetNativeQuiesceMs(200)
	n := 1 + verifrt.Choose("blocks", verifrt.Param("BLOCKS", 3))
	dag := kit.ChooseDAG(n, verifrt.Param("NEST", 0), false, verifrt.Choose)
	local := make([]bool, n)
	remote := make([]bool, n)
	for i := 0; i < n; i++ {
		local[i] = verifrt.Bool("local")
		remote[i] = true
		if verifrt.Param("REMOTEBITS", 0) == 1 {
			remote[i] = verifrt.Bool("remote")
		}
	}
	mode := 1 + verifrt.Choose("pause-mode", nReqPauseModes-1)
	at := 1
	if mode == rpBlockHook {
		at = 1 + verifrt.Choose("pause-at", n)
	}
	stale := 0
	if verifrt.Param("STALE", 0) == 1 {
		stale = verifrt.Choose("first-response-cut-short", 3)
	}
	// optionally the caller itself asks to skip the first D blocks (it holds them)
	var exts []graphsync.ExtensionData
	if verifrt.Param("USERSKIP", 0) == 1 && verifrt.Choose("user-skip-extension", 2) == 1 {
		// ... which is only meaningful for blocks it really holds: D is at most
		// the number of leading blocks present in the local store
		prefix := int64(0)
		var visit func(i int) bool
		visit = func(i int) bool {
			if !local[i] {
				return false
			}
			prefix++
			for _, k := range dag.Kids[i] {
				if !visit(k) {
					return false
				}
			}
			return true
		}
		visit(0)
		d := verifrt.I64("user-skip")
		verifrt.Assume(d >= 0 && d <= prefix)
		exts = append(exts, graphsync.ExtensionData{Name: graphsync.ExtensionsDoNotSendFirstBlocks, Data: donotsendfirstblocks.EncodeDoNotSendFirstBlocks(d)})
	}
	base, _, _ := reqExchange(dag, local, remote, rpNone, 0, 0, exts)
	with, wasPaused, withheld := reqExchange(dag, local, remote, mode, at, stale, exts)
	verifrt.Eventf("mode=%d at=%d stale=%d paused=%v", mode, at, stale, wasPaused)
	verifrt.Eventf("uninterrupted: %s", base)
	verifrt.Eventf("paused:        %s", with)
	if wasPaused {
		verifrt.Cover("was-paused")
	}
	// region of C02-F2: a block loaded before the (re-)request that the
	// responder cannot supply makes the two sides count the skipped blocks
	// differently
	diverge := false
	for i := 0; i < n; i++ {
		if local[i] && !remote[i] {
			diverge = true
		}
	}
	if stale == 1 {
		verifrt.AssertKF(base == with, "C06 pausing and resuming a request changed what the caller received or what was stored", "C06-F1", true)
	} else {
		// region of the known finding C02-F2 as it shows through a resume: the
		// requestor holds a block the responder lacks, the re-request after the
		// resume asks to skip the blocks traversed so far, and the responder,
		// counting over its own traversal, withholds a block only it can supply
		verifrt.AssertKF(base == with, "C06 pausing and resuming a request changed what the caller received or what was stored", "C02-F2", diverge && withheld)
	}
	verifrt.Reached("end-pause")
}
