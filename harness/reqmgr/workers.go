// verif:dir zz_verif/reqmgr
package reqmgr

import (
	"github.com/libp2p/go-libp2p/core/peer"

	"github.com/ipfs/go-graphsync"
	"github.com/ipfs/go-graphsync/internal/verifrt"
	"github.com/ipfs/go-graphsync/zz_verif/kit"
)

// VerifReq_Workers (C21, requestor side): with W outgoing workers never more
// than W requests execute at once, and every request that is not cancelled is
// eventually executed - also after requests were cancelled while they were
// still waiting in the queue.
func VerifReq_Workers() {
	verifrt.SetNativeQuiesceMs(200)
	w := verifrt.Param("WORKERS", 1)
	n := verifrt.Param("REQS", 3)
	dag := kit.Chain(2)
	e := NewEnv(dag, []bool{false, false}, w, 0)
	pA := peer.ID("peerA")
	var reqs []*Req
	cancelled := map[int]bool{}
	answered := map[int]bool{}
	running := func() int {
		k := 0
		for _, st := range e.RM.PeerState(pA).RequestStates {
			if st == graphsync.Running {
				k++
			}
		}
		return k
	}
	check := func() {
		verifrt.Assert(running() <= w, "C21 more outgoing requests executing at once than the configured maximum")
	}
	// the responder answers, completely, every request it has been sent
	serve := func() bool {
		any := false
		for i, rq := range reqs {
			if answered[i] || cancelled[i] {
				continue
			}
			if len(e.RequestsTo(pA, rq.ID, graphsync.RequestTypeNew)) > 0 {
				items, st := RefResponder(dag, func(int) bool { return true }, 0)
				e.Deliver(pA, rq.ID, items, st)
				answered[i] = true
				any = true
			}
		}
		return any
	}
	for i := 0; i < n; i++ {
		reqs = append(reqs, e.Start(pA, i))
		kit.Drain()
		check()
	}
	// some of the requests are cancelled by their callers; those beyond the
	// first W are still waiting in the queue at this point
	for i := 0; i < n; i++ {
		if verifrt.Bool("cancel") {
			reqs[i].Cancel()
			cancelled[i] = true
			if i >= w {
				verifrt.Cover("cancelled-while-queued")
			}
		}
	}
	kit.Drain()
	check()
	for round := 0; round < n+2 && serve(); round++ {
		kit.Drain()
		check()
	}
	// a request submitted afterwards
	late := e.Start(pA, n)
	reqs = append(reqs, late)
	kit.Drain()
	check()
	for round := 0; round < 3 && serve(); round++ {
		kit.Drain()
	}
	for i, rq := range reqs {
		if cancelled[i] {
			continue
		}
		verifrt.Eventf("req%d delivered=%d errors=%d done=%v/%v", i, len(rq.Progress), len(rq.Errors), rq.ProgDone, rq.ErrDone)
		verifrt.Assert(rq.ProgDone && rq.ErrDone && len(rq.Errors) == 0 && len(rq.Progress) > 0, "C21 a queued outgoing request that was not cancelled was never executed to completion")
		verifrt.Cover("request-completed")
	}
	verifrt.Reached("end-workers")
}
