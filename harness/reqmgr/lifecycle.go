// verif:dir zz_verif/reqmgr
package reqmgr

import (
	"fmt"

	"github.com/libp2p/go-libp2p/core/peer"

	"github.com/ipfs/go-graphsync"
	"github.com/ipfs/go-graphsync/internal/verifrt"
	"github.com/ipfs/go-graphsync/zz_verif/kit"
)

const (
	lvData = iota
	lvSuccess
	lvFailure
	lvCtxCancel
	lvCancelAPI
	lvPause
	lvUnpause
	lvDrain
	lvHookError
	nLifeEvents
)

var failureCodes = []graphsync.ResponseStatusCode{
	graphsync.RequestRejected, graphsync.RequestFailedBusy, graphsync.RequestFailedUnknown,
	graphsync.RequestFailedLegal, graphsync.RequestFailedContentNotFound, graphsync.RequestCancelled,
}

// VerifReq_StatusCodes (C04 obligation 1, pure solver): for every 32-bit
// status code, terminal <=> success or failure; a failure has a non-nil error,
// a success has none, and the six failure codes are told apart by their errors.
func VerifReq_StatusCodes() {
	c := graphsync.ResponseStatusCode(verifrt.I32("status"))
	term, succ, fail := c.IsTerminal(), c.IsSuccess(), c.IsFailure()
	verifrt.Assert(term == (succ || fail), "C04 IsTerminal is not IsSuccess or IsFailure")
	verifrt.Assert(!(succ && fail), "C04 a status is both success and failure")
	if fail {
		verifrt.Assert(c.AsError() != nil, "C04 a failure status has no error")
		verifrt.Cover("failure-code")
		for _, f := range failureCodes {
			if f != c {
				verifrt.Assert(fmt.Sprintf("%T|%v", c.AsError(), c.AsError()) != fmt.Sprintf("%T|%v", f.AsError(), f.AsError()), "C04 two failure statuses yield indistinguishable errors")
			}
		}
	}
	if succ {
		verifrt.Assert(c.AsError() == nil, "C04 a success status yields an error")
	}
	// the defined failure codes are exactly 30..35
	verifrt.Assert(fail == (c >= 30 && c <= 35), "C04 failure codes are not exactly 30..35")
	verifrt.Assert(succ == (c == 20 || c == 21), "C04 success codes are not exactly 20, 21")
	verifrt.Reached("end-statuscodes")
}

func checkReqDiagnostics(e *Env, p peer.ID) {
	ps := e.RM.PeerState(p)
	verifrt.Assert(len(ps.Diagnostics()) == 0, "C23 reported request states disagree with the work queue at a quiescent point")
	for id, st := range ps.RequestStates {
		if st == graphsync.Paused {
			for _, a := range ps.TaskQueueState.Active {
				verifrt.Assert(a != id, "C23 paused request is active in the work queue")
			}
			for _, a := range ps.TaskQueueState.Pending {
				verifrt.Assert(a != id, "C23 paused request is pending in the work queue")
			}
		}
	}
}

// VerifReq_Lifecycle (C04, C23): every interleaving (within the bound) of
// response arrival, caller cancellation through the context or the API, pauses,
// hook errors and send failures ends with both channels closed and the right
// outcome.
func VerifReq_Lifecycle() {
	verifrt.SetNativeQuiesceMs(200)
	nev := verifrt.Param("EVENTS", 3)
	evset := verifrt.Param("EVSET", 1<<nLifeEvents-1)
	var alphabet []int
	for i := 0; i < nLifeEvents; i++ {
		if evset&(1<<i) != 0 {
			alphabet = append(alphabet, i)
		}
	}
	dag := kit.Chain(3)
	local := []bool{verifrt.Bool("root-local"), false, false}
	e := NewEnv(dag, local, 1, 0)
	e.FailSends = verifrt.Param("FAILSENDS", 0) == 1 && verifrt.Choose("sends-fail", 2) == 1
	if verifrt.Param("DELAYRELEASE", 1) == 1 {
		e.DelayRelease = verifrt.Choose("executor-slow-to-release-task", 2) == 1
	}
	pA := peer.ID("peerA")
	var failure graphsync.ResponseStatusCode
	terminalSent, ctxCancelled, apiCancelled, hookErr := false, false, false, false
	inProgressAtCancel, inProgressAtFailure := false, false
	var rq *Req
	listed := func() bool {
		_, ok := e.RM.PeerState(pA).RequestStates[rq.ID]
		return ok
	}
	// HOOKRACE: the caller's incoming-block hook is slow at block j; while it
	// runs (the request's task is running) the caller cancels, through its
	// context or through the API, and the manager handles that; the hook then
	// optionally pauses the request
	if verifrt.Param("HOOKRACE", 0) == 1 {
		if race := verifrt.Choose("block-hook-race", 5); race != 0 {
			at := 1 + verifrt.Choose("block-hook-race-at", 2)
			e.BlockHookDo = func(index int) {
				if index != at {
					return
				}
				verifrt.Cover("hook-race")
				switch race {
				case 1, 2:
					if !ctxCancelled {
						inProgressAtCancel = inProgressAtCancel || (failure == 0 && !hookErr)
						rq.Cancel()
						ctxCancelled = true
					}
				case 3, 4:
					// CancelRequest waits for the request to end: issue it from a
					// goroutine of its own (which may get to run only after later
					// events of the main sequence; the bookkeeping is done when it does)
					go func() {
						if !apiCancelled {
							inProgressAtCancel = inProgressAtCancel || (listed() && failure == 0 && !hookErr)
							apiCancelled = true
							_ = e.RM.CancelRequest(e.Ctx, rq.ID)
						}
					}()
				}
				verifrt.Quiesce()
				verifrt.Eventf("hook race %d at block %d: after the slow step listed=%v", race, index, len(e.RM.PeerState(pA).RequestStates) != 0)
				if race == 2 || race == 4 {
					e.BlockHookPause = at
				}
			}
		}
	}
	// ONLINERACE: the caller cancels (context or API) and the manager handles
	// it at the moment the executor, at its first local miss, is about to go
	// online
	if verifrt.Param("ONLINERACE", 0) == 1 {
		if race := verifrt.Choose("go-online-race", 3); race != 0 {
			fired := false
			e.OnGoOnline = func() {
				if fired {
					return
				}
				fired = true
				verifrt.Cover("online-race")
				if race == 1 {
					inProgressAtCancel = inProgressAtCancel || (failure == 0 && !hookErr)
					rq.Cancel()
					ctxCancelled = true
				} else {
					go func() {
						if !apiCancelled {
							inProgressAtCancel = inProgressAtCancel || (listed() && failure == 0 && !hookErr)
							apiCancelled = true
							_ = e.RM.CancelRequest(e.Ctx, rq.ID)
						}
					}()
				}
				verifrt.Quiesce()
			}
		}
	}
	rq = e.Start(pA, 0)
	kit.Drain() // the executor runs until its first local miss and sends the request
	// the responder answers the most recent new request it received: a fresh
	// re-request (after a resume) restarts its response with the skip count
	// the requestor asked for
	var full []RespItem
	sentItems := 0
	epoch := 0
	sync := func() bool {
		news := e.RequestsTo(pA, rq.ID, graphsync.RequestTypeNew)
		if len(news) == 0 {
			return false
		}
		if len(news) != epoch {
			epoch = len(news)
			skip, _ := SkipOf(news[len(news)-1])
			full, _ = RefResponder(dag, func(int) bool { return true }, skip)
			sentItems = 0
		}
		return true
	}
	desc := ""
	for i := 0; i < nev; i++ {
		ev := alphabet[verifrt.Choose("event", len(alphabet))]
		switch ev {
		case lvData:
			if !sync() || terminalSent || sentItems >= len(full) {
				verifrt.Assume(false)
			}
			k := 1 + verifrt.Choose("items", len(full)-sentItems)
			e.Deliver(pA, rq.ID, full[sentItems:sentItems+k], graphsync.PartialResponse)
			sentItems += k
			desc += fmt.Sprintf("data%d ", k)
		case lvSuccess:
			if !sync() || terminalSent {
				verifrt.Assume(false)
			}
			e.Deliver(pA, rq.ID, full[sentItems:], graphsync.RequestCompletedFull)
			sentItems = len(full)
			terminalSent = true
			desc += "success "
		case lvFailure:
			if !sync() || terminalSent {
				verifrt.Assume(false)
			}
			failure = failureCodes[verifrt.Choose("failure-code", len(failureCodes))]
			inProgressAtFailure = listed() && !ctxCancelled && !apiCancelled && !hookErr
			e.Deliver(pA, rq.ID, nil, failure)
			terminalSent = true
			desc += fmt.Sprintf("failure%d ", failure)
		case lvCtxCancel:
			if ctxCancelled {
				verifrt.Assume(false)
			}
			inProgressAtCancel = inProgressAtCancel || (listed() && failure == 0 && !hookErr)
			rq.Cancel()
			ctxCancelled = true
			desc += "ctxcancel "
		case lvCancelAPI:
			if apiCancelled {
				verifrt.Assume(false)
			}
			inProgressAtCancel = inProgressAtCancel || (listed() && failure == 0 && !hookErr)
			_ = e.RM.CancelRequest(e.Ctx, rq.ID)
			apiCancelled = true
			desc += "cancelapi "
		case lvPause:
			_ = e.RM.PauseRequest(e.Ctx, rq.ID)
			desc += "pause "
		case lvUnpause:
			_ = e.RM.UnpauseRequest(e.Ctx, rq.ID)
			desc += "unpause "
		case lvDrain:
			kit.Drain()
			checkReqDiagnostics(e, pA)
			desc += "drain "
		case lvHookError:
			if !sync() || terminalSent || hookErr {
				verifrt.Assume(false)
			}
			e.RespHookErrFor[pA] = true
			e.Deliver(pA, rq.ID, nil, graphsync.PartialResponse)
			hookErr = true
			desc += "hookerror "
		}
	}
	// closing phase: the responder eventually sends a terminal status, paused
	// requests are resumed, the caller keeps reading
	answered := 0
	if terminalSent {
		answered = epoch
	}
	for round := 0; round < 4; round++ {
		kit.Drain()
		st, ok := e.RM.PeerState(pA).RequestStates[rq.ID]
		verifrt.Eventf("closing round %d: listed=%v state=%v epoch=%d", round, ok, st, epoch)
		// (a caller that cancelled the request does not resume it: the
		// cancellation alone must end it)
		if ok && st == graphsync.Paused && !ctxCancelled && !apiCancelled {
			_ = e.RM.UnpauseRequest(e.Ctx, rq.ID)
			verifrt.Cover("closing-unpause")
			continue
		}
		// the responder answers every (re-)request it has not answered to the end
		// ... unless the caller has cancelled: a cancellation must take effect
		// without any further help from the responder
		if ok && sync() && epoch != answered && !ctxCancelled && !apiCancelled {
			e.Deliver(pA, rq.ID, full[sentItems:], graphsync.RequestCompletedFull)
			sentItems = len(full)
			terminalSent = true
			answered = epoch
			continue
		}
		break
	}
	kit.Drain()
	checkReqDiagnostics(e, pA)
	verifrt.Event(desc)
	errs := ""
	sawClientCancelled, sawFailure := false, false
	for _, err := range rq.Errors {
		errs += fmt.Sprintf("%T,", err)
		if _, ok := err.(graphsync.RequestClientCancelledErr); ok {
			sawClientCancelled = true
		}
		if failure != 0 && fmt.Sprintf("%T|%v", err, err) == fmt.Sprintf("%T|%v", failure.AsError(), failure.AsError()) {
			sawFailure = true
		}
	}
	cancels := len(e.RequestsTo(pA, rq.ID, graphsync.RequestTypeCancel))
	verifrt.Eventf("errors=[%s] delivered=%d done=%v/%v cancels-sent=%d listed=%v", errs, len(rq.Progress), rq.ProgDone, rq.ErrDone, cancels, listed())
	verifrt.Assert(rq.ProgDone && rq.ErrDone, "C04 result channels not both closed after a terminal status or a cancellation although the caller kept reading")
	verifrt.Assert(!listed(), "C04 request still tracked after it terminated")
	if inProgressAtCancel {
		verifrt.Assert(sawClientCancelled, "C04 caller cancellation of an in-progress request did not yield a client-cancelled error")
		verifrt.Assert(cancels >= 1, "C04 caller cancellation of an in-progress request did not send a cancel to the responder")
		verifrt.Cover("cancelled-in-progress")
	}
	if inProgressAtFailure && !ctxCancelled && !apiCancelled {
		verifrt.Assert(sawFailure, "C04 a responder failure status did not yield a terminal error identifying that status")
		verifrt.Cover("failure-reported")
	}
	tag := string(pA) + "/" + rq.ID.Tag()
	verifrt.Assert(e.Protects[tag] == e.Unprotects[tag], "C04 connection protection of a finished request not released")
	st := e.TQ.Stats()
	verifrt.Assert(st.Active == 0 && st.Pending == 0, "C23 work queue reports active or pending tasks after every request ended")
	verifrt.Reached("end-lifecycle")
}
