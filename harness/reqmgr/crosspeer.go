// verif:dir zz_verif/reqmgr
package reqmgr

import (
	"fmt"

	"github.com/libp2p/go-libp2p/core/peer"

	"github.com/ipfs/go-graphsync"
	"github.com/ipfs/go-graphsync/internal/verifrt"
	"github.com/ipfs/go-graphsync/zz_verif/kit"
)

const (
	rqQueued = iota
	rqRunningOnline // executor parked waiting for the remote
	rqPaused
	rqDataInFlight // genuine data has just arrived and its block hooks have not run yet
	nReqPoints
)

// foreign response shapes
const (
	fPartialEmpty = iota
	fPartialData // metadata + block for the link the traversal waits for
	fCompleted
	fFailed
	fMissing // metadata: awaited link missing
	fAnyStatus // data for the awaited link with an arbitrary 32-bit status code (solver variable)
	nForeignShapes
)

const (
	hookNothing = iota
	hookError
	hookExtensions
	nHookModes
)

func observeReq(e *Env, rq *Req, pA peer.ID) string {
	out := fmt.Sprintf("delivered=%d[", len(rq.Progress))
	for _, d := range rq.Progress {
		if d.IsRoot {
			out += fmt.Sprintf("%d@%s,", d.Block, d.BlockPath)
		}
	}
	out += "] errors=["
	for _, err := range rq.Errors {
		out += fmt.Sprintf("%T,", err)
	}
	out += fmt.Sprintf("] done=%v/%v sent=[", rq.ProgDone, rq.ErrDone)
	for _, o := range e.Sent {
		for _, r := range o.Reqs {
			out += fmt.Sprintf("%s:%s,", o.To, r.Type())
		}
	}
	out += fmt.Sprintf("] commits=%v hooksA=%d blockhooks=%d saw=%v", e.Store.Commits, e.RespHookCalls[pA], e.BlockHookCalls, e.BlockHookSaw)
	_, listed := e.RM.PeerState(pA).RequestStates[rq.ID]
	out += fmt.Sprintf(" listed=%v", listed)
	return out
}

// bOwn: 0 = B has no request of ours; 1/2 = B also serves a genuine request
// (id 1) and puts its own response before/after the foreign one in the same
// message.
func reqScenario(point, shape, hookMode, bOwn int, interfere bool, anyStatus graphsync.ResponseStatusCode) (string, *Env) {
	dag := kit.Chain(2)
	local := []bool{true, false} // the second block must come from the responder
	workers := 1
	if point == rqQueued {
		workers = 0
	}
	e := NewEnv(dag, local, workers, 0)
	pA, pB := peer.ID("peerA"), peer.ID("peerB")
	switch hookMode {
	case hookError:
		e.RespHookErrFor[pB] = true
	case hookExtensions:
		e.RespHookExtFor[pB] = true
	}
	rq := e.Start(pA, 0)
	kit.Drain()
	var rqB *Req
	if bOwn != 0 {
		rqB = e.Start(pB, 1)
		kit.Drain()
	}
	if point == rqPaused {
		_ = e.RM.PauseRequest(e.Ctx, rq.ID)
		// the pause takes effect at the next block: feed the block the executor waits for
		e.Deliver(pA, rq.ID, []RespItem{{Link: 0, Present: true}, {Link: 1, Present: true, Block: true}}, graphsync.PartialResponse)
		kit.Drain()
	}
	if point == rqDataInFlight {
		// no drain: the foreign message (if any) is processed right behind it
		e.Deliver(pA, rq.ID, []RespItem{{Link: 0, Present: true}, {Link: 1, Present: true, Block: true}}, graphsync.PartialResponse)
	}
	if interfere {
		var items []RespItem
		st := graphsync.PartialResponse
		switch shape {
		case fPartialData:
			items = []RespItem{{Link: 0, Present: true}, {Link: 1, Present: true, Block: true}}
		case fCompleted:
			st = graphsync.RequestCompletedFull
		case fFailed:
			st = graphsync.RequestFailedUnknown
		case fMissing:
			items = []RespItem{{Link: 0, Present: true}, {Link: 1}}
			st = graphsync.RequestCompletedPartial
		case fAnyStatus:
			items = []RespItem{{Link: 0, Present: true}, {Link: 1, Present: true, Block: true}}
			st = anyStatus
		}
		foreign := Resp{ID: rq.ID, Items: items, Status: st}
		own := Resp{ID: kit.ReqID(1), Status: graphsync.PartialResponse}
		switch bOwn {
		case 0:
			e.DeliverMulti(pB, []Resp{foreign})
		case 1:
			e.DeliverMulti(pB, []Resp{own, foreign})
		case 2:
			e.DeliverMulti(pB, []Resp{foreign, own})
		}
	} else if bOwn != 0 {
		e.DeliverMulti(pB, []Resp{{ID: kit.ReqID(1), Status: graphsync.PartialResponse}})
	}
	// both runs settle at the same points
	kit.Drain()
	_ = rqB
	// the genuine exchange with A
	if workers == 0 {
		e.TQ.Startup(1, e.Ex)
		kit.Drain()
	}
	if point == rqPaused {
		_ = e.RM.UnpauseRequest(e.Ctx, rq.ID)
		kit.Drain()
	}
	if point == rqDataInFlight {
		e.Deliver(pA, rq.ID, nil, graphsync.RequestCompletedFull)
	} else {
		e.Deliver(pA, rq.ID, []RespItem{{Link: 0, Present: true}, {Link: 1, Present: true, Block: true}}, graphsync.RequestCompletedFull)
	}
	kit.Drain()
	hb := e.RespHookCalls[pB]
	return observeReq(e, rq, pA) + fmt.Sprintf(" hooksB=%d", hb), e
}

// VerifReq_CrossPeer (C09): a response from peer B that carries the id of a
// request sent to peer A has no effect on it.
func VerifReq_CrossPeer() {
	verifrt.SetNativeQuiesceMs(200)
	point := verifrt.Choose("request-state", nReqPoints)
	shape := verifrt.Choose("foreign-response", nForeignShapes)
	hook := verifrt.Choose("response-hook-for-B", nHookModes)
	bOwn := verifrt.Choose("b-has-own-request", 3)
	if bOwn != 0 && hook != hookNothing {
		// B's hook verdicts would also apply to B's own genuine response and
		// change the baseline: keep them for the pure-foreign case
		verifrt.Assume(false)
	}
	anyStatus := graphsync.ResponseStatusCode(0)
	if shape == fAnyStatus {
		anyStatus = graphsync.ResponseStatusCode(verifrt.I32("foreign-status"))
	}
	base, _ := reqScenario(point, shape, hook, bOwn, false, anyStatus)
	with, _ := reqScenario(point, shape, hook, bOwn, true, anyStatus)
	verifrt.Eventf("state=%d shape=%d hook=%d", point, shape, hook)
	verifrt.Eventf("without: %s", base)
	verifrt.Eventf("with:    %s", with)
	verifrt.AssertKF(base == with, "C09 a response from another peer carrying the request's id reached its hooks, changed its outcome or caused messages to be sent", "C09-F1", false)
	verifrt.Reached("end-crosspeer")
}
