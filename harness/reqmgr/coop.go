// verif:dir zz_verif/reqmgr
package reqmgr

import (
	"fmt"

	"github.com/libp2p/go-libp2p/core/peer"

	"github.com/ipfs/go-graphsync"
	"github.com/ipfs/go-graphsync/donotsendfirstblocks"
	"github.com/ipfs/go-graphsync/internal/verifrt"
	"github.com/ipfs/go-graphsync/zz_verif/kit"
)

// Load is one link load of the reference requestor traversal.
type Load struct {
	Path     string
	Link     int
	Resolved bool
	Remote   bool // only the responder could supply it
}

// RefRequest is the reference for C02: every link is resolved from the local
// store or from the responder's store along paths the responder can itself
// traverse; unresolved links are reported missing and their subtree skipped.
func RefRequest(d *kit.DAG, local, remote func(int) bool) []Load {
	var out []Load
	// a block obtained from the responder is stored locally and is the
	// requestor's own from then on (it may be reached again below a link the
	// responder cannot follow)
	obtained := map[int]bool{}
	var visit func(i int, path string, reach bool)
	visit = func(i int, path string, reach bool) {
		availRemote := reach && remote(i)
		l := local(i) || obtained[i]
		if !l && availRemote {
			obtained[i] = true
		}
		out = append(out, Load{Path: path, Link: i, Resolved: l || availRemote, Remote: !l && availRemote})
		if !(l || availRemote) {
			return
		}
		for j, k := range d.Kids[i] {
			visit(k, d.LinkPath(path, i, j), availRemote)
		}
	}
	visit(0, "", true)
	return out
}

// remoteAvail reports whether the responder can supply the block loaded at
// path: it holds it and every block above it on that path.
func remoteAvail(d *kit.DAG, remote []bool, path string) bool {
	ok := false
	var visit func(i int, p string, reach bool)
	visit = func(i int, p string, reach bool) {
		avail := reach && remote[i]
		if p == path {
			ok = avail
			return
		}
		for j, k := range d.Kids[i] {
			visit(k, d.LinkPath(p, i, j), avail)
		}
	}
	visit(0, "", true)
	return ok
}

func blockLoads(rq *Req) []Load {
	var out []Load
	for _, d := range rq.Progress {
		if d.IsRoot {
			out = append(out, Load{Path: d.BlockPath, Link: d.Block, Resolved: true})
		}
	}
	return out
}

// VerifReq_Cooperative (C02, C24, parts of C01 and C04): one request to a
// cooperative responder over every DAG and every split of the blocks between
// the two stores.
func VerifReq_Cooperative() {
	verifrt.SetNativeQuiesceMs(200)
	n := verifrt.Param("BLOCKS", 3)
	if verifrt.Param("EXACT", 0) == 0 {
		n = 1 + verifrt.Choose("blocks", n)
	}
	dag := kit.ChooseDAG(n, verifrt.Param("NEST", 1), verifrt.Param("SHARED", 1) == 1, verifrt.Choose)
	local := make([]bool, n)
	remote := make([]bool, n)
	for i := 0; i < n; i++ {
		local[i] = verifrt.Bool("local")
		remote[i] = verifrt.Bool("remote")
	}
	localAt := append([]bool(nil), local...)
	e := NewEnv(dag, local, 1, 0)
	pA := peer.ID("peerA")
	var exts []graphsync.ExtensionData
	userSkip := int64(0)
	userSupplied := false
	if verifrt.Param("USERSKIP", 0) == 1 && verifrt.Choose("user-skip-extension", 2) == 1 {
		userSupplied = true
		userSkip = verifrt.I64("user-skip")
		verifrt.Assume(userSkip >= 0 && userSkip <= 8)
		exts = append(exts, graphsync.ExtensionData{Name: graphsync.ExtensionsDoNotSendFirstBlocks, Data: donotsendfirstblocks.EncodeDoNotSendFirstBlocks(userSkip)})
	}
	rq := e.Start(pA, 0, exts...)
	kit.Drain()
	ref := RefRequest(dag, func(i int) bool { return localAt[i] }, func(i int) bool { return remote[i] })
	// how many loads succeed locally before the first local miss
	localPrefix := int64(0)
	allLocal := true
	{
		var visit func(i int) bool
		visit = func(i int) bool {
			if !localAt[i] {
				return false
			}
			localPrefix++
			for _, k := range dag.Kids[i] {
				if !visit(k) {
					return false
				}
			}
			return true
		}
		allLocal = visit(0)
	}
	// region of the known finding C02-F2: among the blocks the requestor loads
	// locally before its first miss there is one the responder cannot supply,
	// so the two sides count "the first N blocks" differently
	prefixDiverges := false
	for i, l := range ref {
		if int64(i) >= localPrefix {
			break
		}
		if !l.Resolved {
			break
		}
		// responder-side availability of this load
		if !remoteAvail(dag, remote, l.Path) {
			prefixDiverges = true
		}
	}
	// ... and, more precisely, the responder (told to skip the first N blocks,
	// which it counts over its own traversal) withholds a block that only it
	// can supply
	neededWithheld := false
	news := e.RequestsTo(pA, rq.ID, graphsync.RequestTypeNew)
	desc := ""
	for i := 0; i < n; i++ {
		desc += fmt.Sprintf("%d:%v ", i, dag.Kids[i])
	}
	verifrt.Eventf("dag %s requests=%d", desc, len(news))
	if allLocal {
		verifrt.Cover("all-local")
		verifrt.Assert(len(e.Sent) == 0, "C24 requestor that holds every block still sent something to the network")
	} else {
		verifrt.Assert(len(news) == 1, "C24 requestor missing a block did not send exactly one request")
		if len(news) == 1 {
			skip, has := SkipOf(news[0])
			want := localPrefix
			if userSkip > want {
				want = userSkip
			}
			verifrt.Assert(skip == want, "C24 requestor did not ask to skip exactly the blocks it had already loaded locally")
			// an extension the caller supplied itself (even with value 0) is the
			// caller's business and passes through
			verifrt.Assert(has == (want > 0) || (userSupplied && has), "C24 do-not-send-first-blocks extension present for a zero count or absent for a non-zero count")
			items, status := RefResponder(dag, func(i int) bool { return remote[i] }, skip)
			for _, l := range ref {
				if !l.Remote {
					continue
				}
				// ... at the moment it is needed: the block must accompany the
				// first mention of the link (a later mention, e.g. through a
				// second link to the same block, comes too late for the first)
				sent := false
				for _, it := range items {
					if it.Link == l.Link {
						sent = it.Block
						break
					}
				}
				if !sent {
					neededWithheld = true
				}
			}
			// split into 1..MSGS messages
			msgs := 1 + verifrt.Choose("messages", verifrt.Param("MSGS", 2))
			cut := make([]int, 0, msgs)
			prev := 0
			for m := 0; m < msgs-1; m++ {
				c := prev + verifrt.Choose("cut", len(items)-prev+1)
				cut = append(cut, c)
				prev = c
			}
			cut = append(cut, len(items))
			start := 0
			for m, c := range cut {
				st := graphsync.PartialResponse
				if m == len(cut)-1 {
					st = status
				}
				e.Deliver(pA, rq.ID, items[start:c], st)
				start = c
				if verifrt.Choose("drain-between", 2) == 1 {
					kit.Drain()
				}
			}
			verifrt.Cover("went-online")
		}
	}
	kit.Drain()
	got := blockLoads(rq)
	verifrt.Eventf("loads=%d errors=%d done=%v/%v", len(got), len(rq.Errors), rq.ProgDone, rq.ErrDone)
	// C04: both channels closed once the exchange ended
	verifrt.Assert(rq.ProgDone && rq.ErrDone, "C04 result channels not closed after the exchange ended")
	// C01: everything delivered and stored is genuine
	for _, d := range rq.Progress {
		if d.IsRoot {
			verifrt.Assert(d.V == d.Block, "C01 delivered node is not the content of the link it was loaded for")
		}
	}
	for i, c := range e.Store.Commits {
		verifrt.Assert(e.Store.Writes[i] == c, "C01 block stored under a link it does not hash to")
	}
	if !ref[0].Resolved {
		verifrt.Cover("root-unresolved")
		verifrt.Assert(len(got) == 0, "C02 nodes delivered although the root block is available nowhere")
		verifrt.Assert(len(rq.Errors) >= 1, "C02 no error reported although the root block is available nowhere")
		verifrt.Reached("end-coop")
		return
	}
	if !allLocal && !remote[0] {
		// the responder itself lacks the root: it fails the request with
		// content-not-found, which the requestor reports as a terminal error;
		// what else is delivered in that case is not fixed by the property
		verifrt.Cover("responder-lacks-root")
		verifrt.Assert(len(rq.Errors) >= 1, "C02 no error reported although the responder failed the request")
		verifrt.Reached("end-coop")
		return
	}
	// C02: resolved loads in order
	var wantLoads, wantMissing []Load
	for _, l := range ref {
		if l.Resolved {
			wantLoads = append(wantLoads, l)
		} else {
			wantMissing = append(wantMissing, l)
		}
	}
	verifrt.Eventf("region: prefixDiverges=%v neededWithheld=%v localPrefix=%d want=%d got=%d", prefixDiverges, neededWithheld, localPrefix, len(wantLoads), len(got))
	verifrt.AssertKF(len(got) == len(wantLoads), "C02 number of blocks delivered differs from the blocks either peer can supply", "C02-F2", prefixDiverges && neededWithheld)
	for i := range wantLoads {
		if i < len(got) {
			verifrt.AssertKF(got[i].Link == wantLoads[i].Link && got[i].Path == wantLoads[i].Path, "C02 blocks delivered out of traversal order or at the wrong path", "C02-F2", prefixDiverges && neededWithheld)
		}
	}
	nMissingErrs := 0
	for _, err := range rq.Errors {
		if me, ok := err.(graphsync.RemoteMissingBlockErr); ok {
			if nMissingErrs < len(wantMissing) {
				verifrt.AssertKF(kit.LinkIndex(me.Link) == wantMissing[nMissingErrs].Link, "C02 missing-block error reported for the wrong link", "C02-F2", prefixDiverges && neededWithheld)
			}
			nMissingErrs++
		} else {
			verifrt.AssertKF(false, "C02 unexpected error on a cooperative exchange: "+err.Error(), "C02-F2", prefixDiverges && neededWithheld)
		}
	}
	verifrt.AssertKF(nMissingErrs == len(wantMissing), "C02 missing-block errors do not match exactly the links neither side can supply", "C02-F2", prefixDiverges && neededWithheld)
	for _, l := range ref {
		if l.Remote {
			verifrt.AssertKF(l.Link < len(e.Store.Has) && e.Store.Has[l.Link], "C02 a block obtained from the responder was not stored locally", "C02-F2", prefixDiverges && neededWithheld)
			verifrt.Cover("remote-block-stored")
		}
	}
	verifrt.Reached("end-coop")
}
