// verif:dir zz_verif/respmgr
package respmgr

import (
	"fmt"

	"github.com/ipfs/go-cid"
	"github.com/libp2p/go-libp2p/core/peer"

	"github.com/ipfs/go-graphsync"
	"github.com/ipfs/go-graphsync/cidset"
	"github.com/ipfs/go-graphsync/dedupkey"
	"github.com/ipfs/go-graphsync/donotsendfirstblocks"
	"github.com/ipfs/go-graphsync/internal/verifrt"
	"github.com/ipfs/go-graphsync/zz_verif/kit"
)

// wire collects, for request r of peer p, the link metadata in wire order,
// the set of block indices attached to any message for p, and the status
// sequence.
type wire struct {
	md       []kit.Visit
	blocks   map[int]int
	statuses []graphsync.ResponseStatusCode
	// blockBefore[i]: number of messages sent before the one carrying block i
	mdMsg    []int
	blockMsg map[int]int
}

func collect(e *Env, p peer.ID, r int) *wire {
	w := &wire{blocks: map[int]int{}, blockMsg: map[int]int{}}
	id := kit.ReqID(r)
	n := 0
	for _, sm := range e.S.Net.SentTo {
		if sm.To != p {
			continue
		}
		for _, rsp := range sm.Msg.Responses() {
			if rsp.RequestID() != id {
				continue
			}
			if len(w.statuses) == 0 || w.statuses[len(w.statuses)-1] != rsp.Status() {
				w.statuses = append(w.statuses, rsp.Status())
			}
			rsp.Metadata().Iterate(func(c cid.Cid, a graphsync.LinkAction) {
				w.md = append(w.md, kit.Visit{Link: kit.LinkIndex(kit.LinkOf(c)), Present: a == graphsync.LinkActionPresent})
				w.mdMsg = append(w.mdMsg, n)
			})
		}
		for _, b := range sm.Msg.Blocks() {
			i := kit.LinkIndex(kit.LinkOf(b.Cid()))
			w.blocks[i]++
			if _, ok := w.blockMsg[i]; !ok {
				w.blockMsg[i] = n
			}
		}
		n++
	}
	return w
}

// VerifResp_Mirror (C03, C24 part 3): the responder's wire output mirrors its
// own traversal: metadata per link load in order, blocks for exactly the
// present links not excluded by do-not-send-cids / do-not-send-first-blocks /
// already sent in the request, and the final status.
func VerifResp_Mirror() {
	verifrt.SetNativeQuiesceMs(350)
	n := 1 + verifrt.Choose("blocks", verifrt.Param("BLOCKS", 3))
	dag := kit.ChooseDAG(n, verifrt.Param("NEST", 1), verifrt.Param("SHARED", 1) == 1, verifrt.Choose)
	has := make([]bool, n)
	for i := range has {
		has[i] = verifrt.Bool("present")
	}
	e := NewEnv(dag, has, 1, 0, 1<<40, 1<<30)
	e.S.Net.NoFaults = true
	// the last block may be one whose content is zero bytes long
	if len(dag.Kids[n-1]) == 0 && verifrt.Choose("last-block-empty", 2) == 1 {
		e.Store.EmptyBlock = n - 1
		verifrt.Cover("zero-length-block")
	}
	pA := peer.ID("peerA")
	kA := key{pA, kit.ReqID(0)}
	verdict := HookAccept
	if verifrt.Param("VERDICTS", 0) == 1 {
		verdict = verifrt.Choose("request-hook", nHookVerdicts)
		if verdict == HookPause {
			verdict = HookAccept
		}
	}
	e.ReqVerdict[kA] = verdict
	var exts []graphsync.ExtensionData
	// do-not-send-first-blocks: any int64
	skip := int64(0)
	hasSkip := verifrt.Choose("has-skip-extension", 2) == 1
	if hasSkip {
		skip = verifrt.I64("skip")
		exts = append(exts, graphsync.ExtensionData{Name: graphsync.ExtensionsDoNotSendFirstBlocks, Data: donotsendfirstblocks.EncodeDoNotSendFirstBlocks(skip)})
	}
	// do-not-send-cids: any subset
	ignore := make([]bool, n)
	if verifrt.Choose("has-cidset-extension", 2) == 1 {
		set := cid.NewSet()
		for i := 0; i < n; i++ {
			if verifrt.Choose("ignore", 2) == 1 {
				ignore[i] = true
				set.Add(kit.Cid(i))
			}
		}
		exts = append(exts, graphsync.ExtensionData{Name: graphsync.ExtensionDoNotSendCIDs, Data: cidset.EncodeCidSet(set)})
	}
	if verifrt.Choose("has-dedup-key", 2) == 1 {
		nd, _ := dedupkey.EncodeDedupKey("k1")
		exts = append(exts, graphsync.ExtensionData{Name: graphsync.ExtensionDeDupByKey, Data: nd})
	}
	e.NewRequest(pA, 0, exts...)
	Drain()
	w := collect(e, pA, 0)
	ref := kit.RefTraversal(dag, func(i int) bool { return has[i] })
	desc := ""
	for i := 0; i < n; i++ {
		desc += fmt.Sprintf("%d:%v ", i, dag.Kids[i])
	}
	verifrt.Eventf("dag %s md=%d blocks=%d statuses=%v", desc, len(w.md), len(w.blocks), w.statuses)
	final := graphsync.ResponseStatusCode(0)
	if len(w.statuses) > 0 {
		final = w.statuses[len(w.statuses)-1]
	}
	switch verdict {
	case HookReject:
		verifrt.Assert(final == graphsync.RequestRejected && len(w.md) == 0 && len(w.blocks) == 0, "C03 an unvalidated request was not answered with RequestRejected and no data")
		verifrt.Reached("end-mirror")
		return
	case HookError:
		verifrt.Assert(final == graphsync.RequestFailedUnknown && len(w.md) == 0 && len(w.blocks) == 0, "C03 a request whose hook failed was not answered with RequestFailedUnknown and no data")
		verifrt.Reached("end-mirror")
		return
	}
	// (i) metadata mirrors the traversal
	verifrt.Assert(len(w.md) == len(ref), "C03 number of link metadata entries differs from the number of link loads of the responder's traversal")
	for i := range ref {
		if i < len(w.md) {
			verifrt.Assert(w.md[i].Link == ref[i].Link, "C03 link metadata out of traversal order")
			verifrt.Assert(w.md[i].Present == ref[i].Present, "C03 link metadata marks a present link missing or a missing link present")
		}
	}
	// (ii) blocks
	anyMissing := false
	seen := map[int]bool{}
	missingBefore := false
	for i, v := range ref {
		idx := int64(i + 1)
		if !v.Present {
			anyMissing = true
			verifrt.Assert(w.blocks[v.Link] == 0 || seen[v.Link], "C03 block data sent for a link reported missing")
			missingBefore = true
			continue
		}
		if seen[v.Link] {
			continue
		}
		excluded := ignore[v.Link]
		if hasSkip {
			if missingBefore {
				// how a missing link counts towards the first N blocks is not
				// fixed by the property text: not asserted either way
				seen[v.Link] = true
				continue
			}
			excluded = excluded || idx <= skip
		}
		_ = excluded
		if hasSkip {
			verifrt.Assert((w.blocks[v.Link] == 1) == !(ignore[v.Link] || idx <= skip), "C03/C24 block data does not accompany exactly the present links that are not excluded by do-not-send-cids, do-not-send-first-blocks or an earlier transmission in the request")
		} else {
			verifrt.Assert((w.blocks[v.Link] == 1) == !ignore[v.Link], "C03/C24 block data does not accompany exactly the present links that are not excluded by do-not-send-cids or an earlier transmission in the request")
		}
		seen[v.Link] = true
		verifrt.Cover("block-decision-checked")
	}
	for i, c := range w.blocks {
		verifrt.Assert(c <= 1, "C03/C24 a block was transmitted twice within one request")
		_ = i
	}
	// a block travels no later than its metadata... (not required) ; (iii) status
	switch {
	case !ref[0].Present:
		verifrt.Assert(final == graphsync.RequestFailedContentNotFound, "C03 missing root block did not yield content-not-found")
		verifrt.Cover("root-missing")
	case anyMissing:
		verifrt.Assert(final == graphsync.RequestCompletedPartial, "C03 traversal with a missing link did not end complete-partial")
		verifrt.Cover("partial")
	default:
		verifrt.Assert(final == graphsync.RequestCompletedFull, "C03 traversal without missing links did not end complete-full")
		verifrt.Cover("full")
	}
	verifrt.Assert(len(e.Completed[kA]) == 1 && e.Completed[kA][0] == final, "C03 completed listener status differs from the status on the wire")
	verifrt.Reached("end-mirror")
}
