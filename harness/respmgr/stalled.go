// verif:dir zz_verif/respmgr
package respmgr

import (
	"fmt"

	"github.com/libp2p/go-libp2p/core/peer"

	"github.com/ipfs/go-graphsync"
	"github.com/ipfs/go-graphsync/internal/verifrt"
	"github.com/ipfs/go-graphsync/zz_verif/kit"
)

const (
	sxNewWithHookExt = iota // X sends a second request whose request hook sends extension data
	sxNewPlain              // X sends a second plain request
	sxCancel                // X cancels its first request
	sxUpdate                // X sends an update (update hook answers with extension data)
	sxPause                 // PauseResponse(X, r0)
	sxUnpauseExt            // UnpauseResponse(X, r0, extension)
	sxUpdateResponse        // UpdateResponse(X, r0, extension)
	nStalledEvents
)

// VerifResp_Stalled (C25): peer X's connection is stalled (its sender never
// returns) and its memory allowance may be exactly full; whatever X (or the
// application, on X's response) does next, a fresh request from peer Y is
// accepted, processed and answered.
func VerifResp_Stalled() {
	verifrt.SetNativeQuiesceMs(350)
	nev := verifrt.Param("EVENTS", 2)
	blocks := 3
	has := []bool{true, true, true}
	limit := verifrt.U64("x-allowance")
	verifrt.Assume(limit >= 1 && limit <= 4)
	e := NewEnv(kit.Chain(blocks), has, 3, 0, 1<<40, limit)
	e.S.Net.NoFaults = true
	pX, pY := peer.ID("peerX"), peer.ID("peerY")
	e.S.Net.SendGate = map[peer.ID]*kit.Gate{pX: kit.NewGate()} // never opened
	e.ReqVerdict[key{pX, kit.ReqID(0)}] = HookAccept
	e.NewRequest(pX, 0)
	Drain()
	full := e.S.Alloc.AllocatedForPeer(pX) == limit
	if full {
		verifrt.Cover("x-allowance-full")
	}
	ext := graphsync.ExtensionData{Name: "app/ext", Data: kit.ExtNode()}
	// managerSideData: a transaction carrying data of non-zero size for X was
	// executed on the manager goroutine at a moment when X's allowance could
	// not take it (the region of the known finding C25-F1)
	managerSideData := false
	wouldBlock := func() bool { return e.S.Alloc.AllocatedForPeer(pX)+1 > limit }
	desc := ""
	second := false
	for i := 0; i < nev; i++ {
		ev := verifrt.Choose("x-event", nStalledEvents)
		switch ev {
		case sxNewWithHookExt, sxNewPlain:
			if second {
				verifrt.Assume(false)
			}
			second = true
			k1 := key{pX, kit.ReqID(1)}
			e.ReqVerdict[k1] = HookAccept
			if ev == sxNewWithHookExt {
				e.ReqHookExt[k1] = true
				managerSideData = managerSideData || wouldBlock()
			}
			e.NewRequest(pX, 1)
		case sxCancel:
			e.CancelFromPeer(pX, 0)
		case sxUpdate:
			e.UpdVerdict = UpdExtension
			st := e.stateOf(pX, 0)
			if st == graphsync.Paused {
				managerSideData = managerSideData || wouldBlock()
			}
			e.UpdateFromPeer(pX, 0)
		case sxPause:
			go func() { _ = e.RM.PauseResponse(e.Ctx, kit.ReqID(0)) }()
		case sxUnpauseExt:
			if e.stateOf(pX, 0) == graphsync.Paused {
				managerSideData = managerSideData || wouldBlock()
			}
			go func() { _ = e.RM.UnpauseResponse(e.Ctx, kit.ReqID(0), ext) }()
		case sxUpdateResponse:
			if st := e.stateOf(pX, 0); st != stateNone && st != stateFrozen {
				managerSideData = managerSideData || wouldBlock()
			}
			go func() { _ = e.RM.UpdateResponse(e.Ctx, kit.ReqID(0), ext) }()
		}
		desc += fmt.Sprintf("%d ", ev)
		Drain()
	}
	verifrt.Eventf("x-events: %s full=%v", desc, full)
	// the fresh request from Y
	kY := key{pY, kit.ReqID(2)}
	e.ReqVerdict[kY] = HookAccept
	e.NewRequest(pY, 2)
	Drain()
	served := len(e.Completed[kY]) == 1 && e.Completed[kY][0] == graphsync.RequestCompletedFull
	verifrt.Eventf("y: hooks=%d %s", e.ReqHookCalls[kY], e.Outcome(kY))
	region := managerSideData
	verifrt.AssertKF(e.ReqHookCalls[kY] == 1, "C25 a request from another peer was not even processed while one peer was stalled", "C25-F1", region)
	verifrt.AssertKF(served, "C25 a request from another peer was not answered while one peer was stalled", "C25-F1", region)
	if served {
		verifrt.Cover("y-served")
	}
	verifrt.Reached("end-stalled")
}

// VerifResp_StalledDropped (C25): the memory shared by all peers (not X's own
// allowance) is what X's stalled connection exhausts; X's response waits for
// memory.  Then X's connection times out for good and its message queue gives
// up.  A request from peer Y - issued before that (so that it waits behind X)
// or after it - is answered in full, and nothing stays reserved.
func VerifResp_StalledDropped() {
	verifrt.SetNativeQuiesceMs(350)
	blocks := 3
	has := []bool{true, true, true}
	total := verifrt.U64("shared-memory")
	verifrt.Assume(total >= 1 && total <= 4)
	e := NewEnv(kit.Chain(blocks), has, 3, 0, total, 1<<40)
	e.S.Net.NoFaults = true
	pX, pY := peer.ID("peerX"), peer.ID("peerY")
	gate := kit.NewGate()
	e.S.Net.SendGate = map[peer.ID]*kit.Gate{pX: gate}
	e.S.Net.Dead = map[peer.ID]bool{}
	e.ReqVerdict[key{pX, kit.ReqID(0)}] = HookAccept
	kY := key{pY, kit.ReqID(2)}
	e.ReqVerdict[kY] = HookAccept
	e.NewRequest(pX, 0)
	Drain()
	if e.S.Alloc.AllocatedForPeer(pX) == total {
		verifrt.Cover("shared-memory-full")
	}
	// optionally a second response to X is under way too (and waits for memory as well)
	if verifrt.Choose("x-second-request", 2) == 1 {
		e.ReqVerdict[key{pX, kit.ReqID(1)}] = HookAccept
		e.NewRequest(pX, 1)
		Drain()
	}
	yFirst := verifrt.Choose("y-asks-before-x-is-dropped", 2) == 1
	if yFirst {
		e.NewRequest(pY, 2)
		Drain()
	}
	// X's connection is given up: the pending send fails and so does every retry
	e.S.Net.Dead[pX] = true
	e.S.PMM.Disconnected(pX)
	gate.Open()
	Drain()
	verifrt.Eventf("after drop: x %s exited=%v held=%d", e.Outcome(key{pX, kit.ReqID(0)}), len(e.S.Exited), e.S.Alloc.AllocatedForPeer(pX))
	if len(e.S.Exited) > 0 {
		verifrt.Cover("x-dropped")
	}
	if !yFirst {
		e.NewRequest(pY, 2)
		Drain()
	}
	served := len(e.Completed[kY]) == 1 && e.Completed[kY][0] == graphsync.RequestCompletedFull
	verifrt.Eventf("y first=%v: hooks=%d %s", yFirst, e.ReqHookCalls[kY], e.Outcome(kY))
	verifrt.Assert(e.ReqHookCalls[kY] == 1, "C25 a request from another peer was not even processed after a stalled peer was dropped")
	verifrt.Assert(served, "C25 a request from another peer was not answered after a stalled peer was dropped")
	if served {
		verifrt.Cover("y-served")
	}
	st := e.S.Alloc.Stats()
	verifrt.Assert(st.TotalAllocatedAllPeers == 0, "C25/C13 memory still reserved after the stalled peer was dropped and every other response was sent")
	verifrt.Reached("end-stalled-dropped")
}

const (
	stateNone   = graphsync.RequestState(255)
	stateFrozen = graphsync.RequestState(254) // the manager loop does not answer
)

// stateOf asks the manager for the state of a response without blocking the
// harness when the manager loop is frozen.
func (e *Env) stateOf(p peer.ID, r int) graphsync.RequestState {
	res := make(chan graphsync.RequestState, 1)
	go func() {
		st, ok := e.RM.PeerState(p).RequestStates[kit.ReqID(r)]
		if !ok {
			st = stateNone
		}
		res <- st
	}()
	Drain()
	select {
	case st := <-res:
		return st
	default:
		return stateFrozen
	}
}
