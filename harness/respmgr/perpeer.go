// verif:dir zz_verif/respmgr
package respmgr

import (
	"fmt"

	"github.com/libp2p/go-libp2p/core/peer"

	"github.com/ipfs/go-graphsync"
	"github.com/ipfs/go-graphsync/internal/verifrt"
	"github.com/ipfs/go-graphsync/zz_verif/kit"
)

// VerifResp_PerPeerLimit (C21): with a per-peer maximum of incoming requests
// in progress, never more traversals of one peer run at once — including
// responses that were paused and resumed — and every request still completes.
func VerifResp_PerPeerLimit() {
	verifrt.SetNativeQuiesceMs(350)
	PerPeerMax = 1
	defer func() { PerPeerMax = 0 }()
	nreq := verifrt.Param("REQS", 3)
	has := []bool{true, true}
	e := NewEnv(kit.Chain(2), has, 3, 0, 1<<40, 1<<30)
	e.S.Net.NoFaults = true
	pX, pY := peer.ID("peerX"), peer.ID("peerY")
	// every traversal parks in the storage read of its second block until released
	gate := kit.NewGate()
	running := map[peer.ID]int{}
	maxRunning := map[peer.ID]int{}
	e.Store.OnRead = func(i int) {
		if i == 1 {
			gate.Wait()
		}
	}
	_ = running
	cancelled := map[key]bool{}
	desc := ""
	for r := 0; r < nreq; r++ {
		p := pX
		if verifrt.Choose("peer", 2) == 1 {
			p = pY
		}
		k := key{p, kit.ReqID(r)}
		nmodes := 3
		if verifrt.Param("CANCELSTART", 0) == 1 {
			nmodes = 4
		}
		mode := verifrt.Choose("start-mode", nmodes)
		switch mode {
		case 3: // cancelled by local command after a worker popped its task and before the manager handed out the task's data
			e.ReqVerdict[k] = HookAccept
			target := kit.ReqID(r)
			// (the peer's connection is slow: the cancellation's final message is
			// still unsent, so the response is still tracked, when the worker
			// gets its answer)
			if e.S.Net.SendGate == nil {
				e.S.Net.SendGate = map[peer.ID]*kit.Gate{}
			}
			if e.S.Net.SendGate[p] == nil {
				e.S.Net.SendGate[p] = kit.NewGate()
			}
			e.OnStartTask = func(id graphsync.RequestID, _ peer.ID) {
				if id == target && !cancelled[k] {
					cancelled[k] = true
					verifrt.Cover("cancelled-between-pop-and-start")
					go func() { _ = e.RM.CancelResponse(e.Ctx, target) }()
					verifrt.Quiesce()
				}
			}
			e.NewRequest(p, r)
		case 0:
			e.ReqVerdict[k] = HookAccept
			e.NewRequest(p, r)
		case 1: // starts paused by the request hook and is resumed through the API
			e.ReqVerdict[k] = HookPause
			e.NewRequest(p, r)
			Drain()
			_ = e.RM.UnpauseResponse(e.Ctx, kit.ReqID(r))
		case 2: // starts paused and is resumed by a requestor update
			e.ReqVerdict[k] = HookPause
			e.NewRequest(p, r)
			Drain()
			e.UpdVerdict = UpdUnpause
			e.UpdateFromPeer(p, r)
		}
		desc += fmt.Sprintf("%s:%d ", p, mode)
		Drain()
		for _, q := range []peer.ID{pX, pY} {
			act := len(e.RM.PeerState(q).TaskQueueState.Active)
			if act > maxRunning[q] {
				maxRunning[q] = act
			}
			verifrt.Assert(act <= 1, "C21 more incoming requests of one peer in progress at once than the per-peer maximum")
		}
	}
	gate.Open()
	for _, g := range e.S.Net.SendGate {
		g.Open()
	}
	Drain()
	verifrt.Eventf("%s max X=%d Y=%d", desc, maxRunning[pX], maxRunning[pY])
	for r := 0; r < nreq; r++ {
		for _, p := range []peer.ID{pX, pY} {
			k := key{p, kit.ReqID(r)}
			if e.ReqHookCalls[k] > 0 && !cancelled[k] {
				verifrt.Assert(len(e.Completed[k]) == 1 && e.Completed[k][0] == graphsync.RequestCompletedFull, "C21 a queued request was never executed to completion")
				verifrt.Cover("request-completed")
			}
		}
	}
	// C23: at this quiescent point the reported states agree with the work
	// queue and nothing is active or pending any more
	checkDiagnostics(e, []peer.ID{pX, pY}, "end")
	st := e.TQ.Stats()
	verifrt.Assert(st.Active == 0 && st.Pending == 0, "C23 work queue reports active or pending tasks after every response ended")
	verifrt.Reached("end-perpeer")
}
