// verif:dir zz_verif/respmgr
package respmgr

import (
	"fmt"

	"github.com/ipfs/go-cid"
	"github.com/libp2p/go-libp2p/core/peer"

	"github.com/ipfs/go-graphsync"
	"github.com/ipfs/go-graphsync/internal/verifrt"
	gsmsg "github.com/ipfs/go-graphsync/message"
	"github.com/ipfs/go-graphsync/zz_verif/kit"
)

// lifecycle points at which the second peer's message arrives
const (
	atQueued = iota
	atRunning
	atPaused
	atCompletingSend
	atDone
	nPoints
)

const (
	foreignCancel = iota
	foreignUpdate
	foreignNew
	nForeign
)

// observe renders everything an outside observer can see about peer p's
// response id: what went on the wire to p, listener notifications, hook
// invocations, remaining state.
func observe(e *Env, p peer.ID, r int) string {
	id := kit.ReqID(r)
	k := key{p, id}
	out := ""
	// message boundaries are a batching artefact and are not compared: the
	// metadata sequence, the sequence of distinct statuses, extension and block
	// totals are
	md, statuses, exts, blocks := "", "", 0, 0
	last := graphsync.ResponseStatusCode(-1)
	for _, sm := range e.S.Net.SentTo {
		if sm.To != p {
			continue
		}
		for _, rsp := range sm.Msg.Responses() {
			if rsp.RequestID() != id {
				continue
			}
			if rsp.Status() != last {
				statuses += fmt.Sprintf("%d,", rsp.Status())
				last = rsp.Status()
			}
			rsp.Metadata().Iterate(func(c cid.Cid, a graphsync.LinkAction) {
				md += fmt.Sprintf("%d:%s,", kit.LinkIndex(kit.LinkOf(c)), a)
			})
			exts += len(rsp.ExtensionNames())
		}
		blocks += len(sm.Msg.Blocks())
	}
	out += fmt.Sprintf("statuses=%s md=%s ext=%d blocks=%d", statuses, md, exts, blocks)
	out += " " + e.Outcome(k)
	out += fmt.Sprintf(" reqhooks=%d updhooks=%d blockhooks=%d processing=%d blocksent=%d", e.ReqHookCalls[k], e.UpdHookCalls[k], e.BlockHooks[k], e.Processing[k], e.BlocksSent[k])
	tag := string(p) + "/" + id.Tag()
	out += fmt.Sprintf(" protect=%d unprotect=%d", e.Protects[tag], e.Unprotects[tag])
	_, listed := e.RM.PeerState(p).RequestStates[id]
	out += fmt.Sprintf(" listed=%v", listed)
	return out
}

// scenario runs A's response to completion with (or without) one foreign
// message from B at the chosen lifecycle point and returns what was observed
// for A and for B.
func scenario(point, foreign, bHook, updVerdict int, interfere bool) (string, string, *Env) {
	k := 2
	has := []bool{true, true}
	e := NewEnv(kit.Chain(k), has, 0, 0, 1<<40, 1<<30)
	e.S.Net.NoFaults = true
	pA, pB := peer.ID("peerA"), peer.ID("peerB")
	kA, kB := key{pA, kit.ReqID(0)}, key{pB, kit.ReqID(0)}
	e.ReqVerdict[kA] = HookAccept
	e.ReqVerdict[kB] = bHook
	e.UpdVerdict = updVerdict
	readGate := kit.NewGate()
	sendGate := kit.NewGate()
	started := false
	startWorkers := func() {
		if !started {
			started = true
			e.TQ.Startup(1, e.QE)
		}
	}
	switch point {
	case atRunning:
		e.Store.OnRead = func(i int) {
			if i == 1 {
				readGate.Wait()
			}
		}
	case atPaused:
		e.ReqVerdict[kA] = HookPause
	case atCompletingSend:
		e.S.Net.SendGate = map[peer.ID]*kit.Gate{pA: sendGate}
	}
	e.NewRequest(pA, 0)
	if point != atQueued {
		startWorkers()
	}
	Drain()
	if point == atDone {
		verifrt.Cover("a-done-before-foreign")
	}
	if interfere {
		switch foreign {
		case foreignCancel:
			e.CancelFromPeer(pB, 0)
		case foreignUpdate:
			e.UpdateFromPeer(pB, 0)
		case foreignNew:
			e.NewRequest(pB, 0)
		}
		Drain()
	}
	// let A's response run to its end
	readGate.Open()
	sendGate.Open()
	startWorkers()
	Drain()
	if st, ok := e.RM.PeerState(pA).RequestStates[kit.ReqID(0)]; ok && st == graphsync.Paused {
		_ = e.RM.UnpauseResponse(e.Ctx, kit.ReqID(0))
		Drain()
	}
	return observe(e, pA, 0), observe(e, pB, 0), e
}

// VerifResp_CrossPeer (C10): a cancel, update or new request from peer B that
// carries the id of a response being served to peer A changes nothing about
// A's response: differential against the same run without B's message.
func VerifResp_CrossPeer() {
	verifrt.SetNativeQuiesceMs(350)
	point := verifrt.Choose("lifecycle-point", nPoints)
	foreign := verifrt.Choose("foreign-type", nForeign)
	bHook := HookAccept
	if foreign == foreignNew {
		bHook = verifrt.Choose("b-request-hook", nHookVerdicts)
	}
	upd := UpdNothing
	if foreign == foreignUpdate {
		upd = verifrt.Choose("update-hook", nUpdVerdicts)
	}
	base, _, _ := scenario(point, foreign, bHook, upd, false)
	with, bObs, _ := scenario(point, foreign, bHook, upd, true)
	verifrt.Eventf("point=%d foreign=%d", point, foreign)
	verifrt.Eventf("A without: %s", base)
	verifrt.Eventf("A with:    %s", with)
	verifrt.Eventf("B:         %s", bObs)
	region := false
	verifrt.AssertKF(base == with, "C10 a message from another peer carrying the same request id changed the response served to the first peer", "C10-F1", region)
	verifrt.Reached("end-crosspeer")
}

var _ = gsmsg.NewCancelRequest
