// verif:dir zz_verif/respmgr
//
// Harness group respmgr: the real ResponseManager (run loop and every
// handler), the real QueryExecutor, the real WorkerTaskQueue/go-peertaskqueue,
// the real ResponseAssembler and sending stack (kit.Stack), the real ipldutil
// traverser over go-ipld-prime; stubs: hooks (verdicts chosen by the harness),
// recording listeners, recording ConnManager, stub network.
package respmgr

import (
	"context"
	"errors"
	"fmt"

	"github.com/ipfs/go-peertaskqueue"
	"github.com/ipfs/go-peertaskqueue/peertask"
	"github.com/ipld/go-ipld-prime/datamodel"
	"github.com/ipld/go-ipld-prime/traversal"
	"github.com/libp2p/go-libp2p/core/peer"

	"github.com/ipfs/go-graphsync"
	"github.com/ipfs/go-graphsync/internal/verifrt"
	gsmsg "github.com/ipfs/go-graphsync/message"
	"github.com/ipfs/go-graphsync/responsemanager"
	"github.com/ipfs/go-graphsync/responsemanager/hooks"
	"github.com/ipfs/go-graphsync/responsemanager/queryexecutor"
	"github.com/ipfs/go-graphsync/taskqueue"
	"github.com/ipfs/go-graphsync/zz_verif/kit"
)

// Hook verdicts
const (
	HookAccept = iota
	HookReject // not validated
	HookPause
	HookError
	nHookVerdicts
)

// Update hook verdicts
const (
	UpdNothing = iota
	UpdUnpause
	UpdError
	UpdExtension
	nUpdVerdicts
)

type key struct {
	p  peer.ID
	id graphsync.RequestID
}

type Env struct {
	Ctx    context.Context
	Cancel context.CancelFunc
	S      *kit.Stack
	RM     *responsemanager.ResponseManager
	TQ     *taskqueue.WorkerTaskQueue
	QE     *queryexecutor.QueryExecutor
	Store  *kit.Store

	// hook verdicts, set by the harness before the event happens
	ReqVerdict   map[key]int
	ReqHookExt   map[key]bool // request hook sends extension data
	UpdVerdict   int
	BlockPauseAt map[key]int // block hook pauses at this block index (1-based), 0 = never
	MaxLinks     map[key]uint64

	// Chooser: the prototype chooser request hooks install (default kit.Chooser)
	Chooser traversal.LinkTargetNodePrototypeChooser
	// Panics: values passed to the panic callback
	Panics []any
	// DelayFinish: see slowManager
	DelayFinish bool
	// DelayStart: the worker that popped a task is descheduled right before it
	// asks the manager for the task's data (StartTask), until every other
	// goroutine has run as far as it can
	DelayStart bool
	// OnStartTask, when set, runs on the worker's goroutine after it popped a
	// task and before it asks the manager for the task's data
	OnStartTask func(id graphsync.RequestID, p peer.ID)

	// observations
	ReqHookCalls map[key]int
	UpdHookCalls map[key]int
	BlockHooks   map[key]int
	Completed    map[key][]graphsync.ResponseStatusCode
	Cancelled    map[key]int
	NetErrors    map[key]int
	Processing   map[key]int
	BlocksSent   map[key]int
	Protects     map[string]int
	Unprotects   map[string]int
}

// PerPeerMax, when set before NewEnv, configures the response queue like
// impl.New does for MaxInProgressIncomingRequestsPerPeer.
var PerPeerMax int

func NewEnv(dag *kit.DAG, has []bool, workers int, maxLinksGlobal uint64, total, perPeer uint64) *Env {
	e := &Env{
		ReqVerdict: map[key]int{}, ReqHookExt: map[key]bool{}, BlockPauseAt: map[key]int{}, MaxLinks: map[key]uint64{},
		ReqHookCalls: map[key]int{}, UpdHookCalls: map[key]int{}, BlockHooks: map[key]int{},
		Completed: map[key][]graphsync.ResponseStatusCode{}, Cancelled: map[key]int{}, NetErrors: map[key]int{},
		Processing: map[key]int{}, BlocksSent: map[key]int{}, Protects: map[string]int{}, Unprotects: map[string]int{},
	}
	e.S = kit.NewStack(total, perPeer, 1)
	e.Ctx, e.Cancel = e.S.Ctx, e.S.Cancel
	e.Store = kit.NewStore(dag, has)
	if PerPeerMax > 0 {
		e.TQ = taskqueue.NewTaskQueue(e.Ctx, peertaskqueue.MaxOutstandingWorkPerPeer(PerPeerMax))
	} else {
		e.TQ = taskqueue.NewTaskQueue(e.Ctx)
	}
	e.Chooser = kit.Chooser
	e.RM = responsemanager.New(e.Ctx, e.Store.LinkSystem(), e.S.RA, e, e, e, e, e, e, e, e, maxLinksGlobal, func(obj any, stack string) { e.Panics = append(e.Panics, obj) }, e.TQ)
	e.QE = queryexecutor.New(e.Ctx, &slowManager{ResponseManager: e.RM, e: e}, e, e)
	if workers > 0 {
		e.TQ.Startup(uint64(workers), e.QE)
	}
	e.RM.Startup()
	return e
}

// slowManager is the manager handed to the query executor: the real
// ResponseManager, except that (when DelayFinish is set) the executor's
// goroutine is descheduled right before it reports the end of a task, until
// every other goroutine has run as far as it can: the schedule in which the
// message queue's notifications overtake the executor's FinishTask message.
type slowManager struct {
	*responsemanager.ResponseManager
	e *Env
}

func (m *slowManager) StartTask(task *peertask.Task, p peer.ID, responseTaskChan chan<- queryexecutor.ResponseTask) {
	if m.e.OnStartTask != nil {
		m.e.OnStartTask(task.Topic.(graphsync.RequestID), p)
	}
	if m.e.DelayStart {
		verifrt.Cover("slow-start")
		verifrt.Quiesce()
	}
	m.ResponseManager.StartTask(task, p, responseTaskChan)
}

func (m *slowManager) FinishTask(task *peertask.Task, p peer.ID, err error) {
	if m.e.DelayFinish {
		verifrt.Quiesce()
	}
	m.ResponseManager.FinishTask(task, p, err)
}

// --- hooks

func (e *Env) ProcessRequestHooks(p peer.ID, request graphsync.RequestData, ctx context.Context) hooks.RequestResult {
	k := key{p, request.ID()}
	e.ReqHookCalls[k]++
	r := hooks.RequestResult{Ctx: ctx, CustomChooser: e.Chooser, MaxLinks: e.MaxLinks[k]}
	if e.ReqHookExt[k] {
		r.Extensions = []graphsync.ExtensionData{{Name: "hook/ext", Data: extNode()}}
	}
	switch e.ReqVerdict[k] {
	case HookAccept:
		r.IsValidated = true
	case HookReject:
	case HookPause:
		r.IsValidated = true
		r.IsPaused = true
	case HookError:
		r.IsValidated = true
		r.Err = errors.New("stub: request hook error")
	}
	return r
}

func (e *Env) ProcessUpdateHooks(p peer.ID, request graphsync.RequestData, update graphsync.RequestData) hooks.UpdateResult {
	k := key{p, request.ID()}
	e.UpdHookCalls[k]++
	switch e.UpdVerdict {
	case UpdUnpause:
		return hooks.UpdateResult{Unpause: true}
	case UpdError:
		return hooks.UpdateResult{Err: errors.New("stub: update hook error")}
	case UpdExtension:
		return hooks.UpdateResult{Extensions: []graphsync.ExtensionData{{Name: "upd/ext", Data: extNode()}}}
	}
	return hooks.UpdateResult{}
}

func (e *Env) ProcessBlockHooks(p peer.ID, request graphsync.RequestData, blockData graphsync.BlockData) hooks.BlockResult {
	k := key{p, request.ID()}
	e.BlockHooks[k]++
	if at := e.BlockPauseAt[k]; at != 0 && int(blockData.Index()) == at {
		return hooks.BlockResult{Err: hooks.ErrPaused{}}
	}
	return hooks.BlockResult{}
}

// --- listeners

func (e *Env) NotifyCompletedListeners(p peer.ID, request graphsync.RequestData, status graphsync.ResponseStatusCode) {
	k := key{p, request.ID()}
	e.Completed[k] = append(e.Completed[k], status)
}
func (e *Env) NotifyCancelledListeners(p peer.ID, request graphsync.RequestData) {
	e.Cancelled[key{p, request.ID()}]++
}
func (e *Env) NotifyBlockSentListeners(p peer.ID, request graphsync.RequestData, block graphsync.BlockData) {
	e.BlocksSent[key{p, request.ID()}]++
}
func (e *Env) NotifyRequestProcessingListeners(p peer.ID, request graphsync.RequestData, n int) {
	e.Processing[key{p, request.ID()}]++
}
func (e *Env) NotifyNetworkErrorListeners(p peer.ID, request graphsync.RequestData, err error) {
	e.NetErrors[key{p, request.ID()}]++
}

// --- conn manager

func (e *Env) Protect(p peer.ID, tag string)        { e.Protects[string(p)+"/"+tag]++ }
func (e *Env) Unprotect(p peer.ID, tag string) bool { e.Unprotects[string(p)+"/"+tag]++; return false }

// --- helpers

func extNode() datamodel.Node { return kit.ExtNode() }

// Exported accessors for harness groups that compose both sides.
func (e *Env) Accept(p peer.ID, id graphsync.RequestID) { e.ReqVerdict[key{p, id}] = HookAccept }
func (e *Env) CompletedOf(p peer.ID, id graphsync.RequestID) []graphsync.ResponseStatusCode {
	return e.Completed[key{p, id}]
}

func (e *Env) NewRequest(p peer.ID, r int, exts ...graphsync.ExtensionData) {
	root := kit.Link(0).(interface{ String() string })
	_ = root
	req := gsmsg.NewRequest(kit.ReqID(r), kit.Cid(0), kit.AllSelector(), graphsync.Priority(0), exts...)
	e.RM.ProcessRequests(e.Ctx, p, []gsmsg.GraphSyncRequest{req})
}

func (e *Env) CancelFromPeer(p peer.ID, r int) {
	e.RM.ProcessRequests(e.Ctx, p, []gsmsg.GraphSyncRequest{gsmsg.NewCancelRequest(kit.ReqID(r))})
}

func (e *Env) UpdateFromPeer(p peer.ID, r int) {
	e.RM.ProcessRequests(e.Ctx, p, []gsmsg.GraphSyncRequest{gsmsg.NewUpdateRequest(kit.ReqID(r), graphsync.ExtensionData{Name: "req/upd", Data: extNode()})})
}

// Drain lets every goroutine run until nothing more can happen (virtual
// timers included).
func Drain() {
	kit.Drain()
}

// Outcome summarises what the listeners saw for one request.
func (e *Env) Outcome(k key) string {
	return fmt.Sprintf("completed=%v cancelled=%d neterr=%d", e.Completed[k], e.Cancelled[k], e.NetErrors[k])
}
