// verif:dir zz_verif/respmgr
package respmgr

import (
	"github.com/libp2p/go-libp2p/core/peer"

	"github.com/ipfs/go-graphsync"
	"github.com/ipfs/go-graphsync/internal/verifrt"
	"github.com/ipfs/go-graphsync/zz_verif/kit"
)

// VerifResp_Budget (C07, responder): with a global link budget g and a
// per-request budget r (either may be 0 = unset), the responder loads
// min(k, N) blocks where N is the smaller non-zero of the two, completes
// normally when k <= N (or no budget applies) and fails the request after
// exactly N blocks otherwise.
func VerifResp_Budget() {
	verifrt.SetNativeQuiesceMs(350)
	k := 1 + verifrt.Choose("blocks", verifrt.Param("KMAX", 3))
	g := verifrt.U64("global-budget")
	_ = g // every 64-bit value
	has := make([]bool, k)
	for i := range has {
		has[i] = true
	}
	e := NewEnv(kit.Chain(k), has, 1, g, 1<<40, 1<<30)
	e.S.Net.NoFaults = true
	pA := peer.ID("peerA")
	// two requests one after the other on the same responder, each with its
	// own per-request budget: the budget of one must not leak into the next
	nreq := verifrt.Param("REQS", 2)
	for q := 0; q < nreq; q++ {
		r := verifrt.U64("request-budget")
		_ = r // every 64-bit value
		kA := key{pA, kit.ReqID(q)}
		e.ReqVerdict[kA] = HookAccept
		e.MaxLinks[kA] = r
		readsBefore := len(e.Store.Reads)
		e.NewRequest(pA, q)
		Drain()
		w := collect(e, pA, q)
		final := graphsync.ResponseStatusCode(0)
		if len(w.statuses) > 0 {
			final = w.statuses[len(w.statuses)-1]
		}
		loaded := uint64(len(w.md))
		verifrt.Eventf("req%d k=%d md=%d final=%d reads=%d", q, k, len(w.md), final, len(e.Store.Reads)-readsBefore)
		// the effective budget: smaller non-zero of g and r
		n := g
		if g == 0 || (r != 0 && r < g) {
			n = r
		}
		verifrt.Assert(uint64(len(e.Store.Reads)-readsBefore) == loaded, "C07 blocks read from the store differ from the link loads reported")
		if n == 0 {
			verifrt.Cover("no-budget")
			verifrt.Assert(loaded == uint64(k) && final == graphsync.RequestCompletedFull, "C07 a request without any budget did not complete normally")
		} else if uint64(k) <= n {
			verifrt.Cover("within-budget")
			verifrt.Assert(loaded == uint64(k) && final == graphsync.RequestCompletedFull, "C07 a traversal needing at most N blocks failed or stopped early under the effective budget N")
		} else {
			verifrt.Cover("over-budget")
			verifrt.Assert(loaded == n, "C07 an over-budget traversal did not load exactly N blocks (N = smaller non-zero of the global and per-request budgets)")
			verifrt.Assert(final == graphsync.RequestFailedUnknown, "C07 an over-budget request did not fail")
		}
	}
	verifrt.Reached("end-budget")
}
