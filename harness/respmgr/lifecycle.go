// verif:dir zz_verif/respmgr
package respmgr

import (
	"fmt"

	"github.com/libp2p/go-libp2p/core/peer"

	"github.com/ipfs/go-graphsync"
	"github.com/ipfs/go-graphsync/internal/verifrt"
	"github.com/ipfs/go-graphsync/zz_verif/kit"
)

const (
	evNew = iota
	evPeerCancel
	evPeerUpdate
	evPause
	evUnpause
	evCancelResponse
	evDrain
	nEvents
	// network events (enabled by NETEVENTS=1)
	evDisconnect = nEvents     // the peer's last connection goes away: its queue is told to shut down
	evGateOpen   = nEvents + 1 // a send that was held back on the slow connection proceeds
)

// checkDiagnostics (C23): at a quiescent point the reported request states
// agree with the task queue.
func checkDiagnostics(e *Env, peers []peer.ID, where string) {
	for _, p := range peers {
		ps := e.RM.PeerState(p)
		d := ps.Diagnostics()
		verifrt.Assert(len(d) == 0, "C23 reported response states disagree with the work queue at a quiescent point")
		for id, st := range ps.RequestStates {
			_ = id
			if st == graphsync.Paused || st == graphsync.CompletingSend {
				for _, a := range ps.TaskQueueState.Active {
					verifrt.Assert(a != id, "C23 paused or completing response is active in the work queue")
				}
				for _, a := range ps.TaskQueueState.Pending {
					verifrt.Assert(a != id, "C23 paused or completing response is pending in the work queue")
				}
			}
		}
	}
	verifrt.Cover("diagnostics-checked")
}

// VerifResp_Lifecycle (C05, C23): every request received is retired with
// exactly one outcome, nothing is left behind, protection is released.
func VerifResp_Lifecycle() {
	verifrt.SetNativeQuiesceMs(350)
	nev := verifrt.Param("EVENTS", 3)
	nreq := verifrt.Param("REQS", 1)
	k := verifrt.Param("BLOCKS", 2)
	evset := verifrt.Param("EVSET", 1<<nEvents-1)
	var alphabet []int
	for i := 0; i < nEvents; i++ {
		if evset&(1<<i) != 0 {
			alphabet = append(alphabet, i)
		}
	}
	has := make([]bool, k)
	for i := range has {
		has[i] = true
	}
	if verifrt.Param("MISSING", 0) == 1 && k > 1 {
		has[k-1] = verifrt.Bool("last-block-present")
	}
	e := NewEnv(kit.Chain(k), has, 1, 0, 1<<40, 1<<30)
	e.S.Net.MaxFaults = verifrt.Param("FAULTS", 0)
	if verifrt.Param("DELAYFINISH", 1) == 1 {
		e.DelayFinish = verifrt.Choose("executor-slow-to-report-finish", 2) == 1
	}
	if verifrt.Param("DELAYSTART", 0) == 1 {
		e.DelayStart = verifrt.Choose("worker-slow-to-start-task", 2) == 1
	}
	pA := peer.ID("peerA")
	peers := []peer.ID{pA}
	var sendGate *kit.Gate
	if verifrt.Param("NETEVENTS", 0) == 1 {
		alphabet = append(alphabet, evDisconnect, evGateOpen)
		// the peer's connection is slow: a send is held back until evGateOpen
		if verifrt.Choose("connection-slow", 2) == 1 {
			sendGate = kit.NewGate()
			e.S.Net.SendGate = map[peer.ID]*kit.Gate{pA: sendGate}
			verifrt.Cover("slow-connection")
		}
	}
	sent := make([]bool, nreq)
	for r := 0; r < nreq; r++ {
		kk := key{pA, kit.ReqID(r)}
		e.ReqVerdict[kk] = verifrt.Choose("request-hook", nHookVerdicts)
		if verifrt.Param("BLOCKPAUSE", 0) == 1 {
			e.BlockPauseAt[kk] = verifrt.Choose("block-hook-pause-at", k+1)
		}
	}
	desc := ""
	for i := 0; i < nev; i++ {
		ev := alphabet[verifrt.Choose("event", len(alphabet))]
		r := 0
		if nreq > 1 && ev != evDrain {
			r = verifrt.Choose("req", nreq)
		}
		id := kit.ReqID(r)
		switch ev {
		case evNew:
			if sent[r] {
				verifrt.Assume(false)
			}
			sent[r] = true
			e.NewRequest(pA, r)
			desc += fmt.Sprintf("new%d ", r)
		case evPeerCancel:
			if !sent[r] {
				verifrt.Assume(false)
			}
			e.CancelFromPeer(pA, r)
			desc += fmt.Sprintf("peercancel%d ", r)
		case evPeerUpdate:
			if !sent[r] {
				verifrt.Assume(false)
			}
			e.UpdVerdict = verifrt.Choose("update-hook", nUpdVerdicts)
			e.UpdateFromPeer(pA, r)
			desc += fmt.Sprintf("peerupdate%d/%d ", r, e.UpdVerdict)
		case evPause:
			if !sent[r] {
				verifrt.Assume(false)
			}
			_ = e.RM.PauseResponse(e.Ctx, id)
			desc += fmt.Sprintf("pause%d ", r)
		case evUnpause:
			if !sent[r] {
				verifrt.Assume(false)
			}
			_ = e.RM.UnpauseResponse(e.Ctx, id)
			desc += fmt.Sprintf("unpause%d ", r)
		case evCancelResponse:
			if !sent[r] {
				verifrt.Assume(false)
			}
			_ = e.RM.CancelResponse(e.Ctx, id)
			desc += fmt.Sprintf("cancelresponse%d ", r)
		case evDrain:
			Drain()
			checkDiagnostics(e, peers, "mid")
			desc += "drain "
		case evDisconnect:
			e.S.PMM.Disconnected(pA)
			desc += "disconnect "
			verifrt.Cover("disconnect")
		case evGateOpen:
			if sendGate == nil {
				verifrt.Assume(false)
			}
			sendGate.Open()
			desc += "gateopen "
		}
	}
	verifrt.Event(desc)
	// closing phase: held-back sends proceed, every paused response is eventually unpaused
	if sendGate != nil {
		sendGate.Open()
	}
	for round := 0; round < 3; round++ {
		Drain()
		ps := e.RM.PeerState(pA)
		verifrt.Eventf("closing round %d: states=%v active=%v pending=%v", round, ps.RequestStates, ps.TaskQueueState.Active, ps.TaskQueueState.Pending)
		any := false
		for r := 0; r < nreq; r++ {
			if st, ok := ps.RequestStates[kit.ReqID(r)]; ok && st == graphsync.Paused {
				kk := key{pA, kit.ReqID(r)}
				e.BlockPauseAt[kk] = 0
				_ = e.RM.UnpauseResponse(e.Ctx, kit.ReqID(r))
				any = true
				verifrt.Cover("closing-unpause")
			}
		}
		if !any {
			break
		}
	}
	Drain()
	checkDiagnostics(e, peers, "end")
	ps := e.RM.PeerState(pA)
	for r := 0; r < nreq; r++ {
		if !sent[r] {
			continue
		}
		kk := key{pA, kit.ReqID(r)}
		nc, ncan, nerr := len(e.Completed[kk]), e.Cancelled[kk], e.NetErrors[kk]
		verifrt.Eventf("req%d %s", r, e.Outcome(kk))
		if nc == 0 && ncan == 0 && nerr == 0 {
			verifrt.DumpGoroutines()
		}
		outcomes := 0
		if nc > 0 {
			outcomes++
		}
		if ncan > 0 {
			outcomes++
		}
		if nerr > 0 {
			outcomes++
		}
		verifrt.AssertKF(outcomes >= 1, "C05 a received request was never retired (no completed, cancelled or network-error notification)", "C05-F1", false)
		// a network-error notification may accompany a cancellation (a message
		// already in flight fails after the requestor cancelled): the property
		// text does not rule that out, so only completed+cancelled is asserted
		verifrt.Assert(!(nc > 0 && ncan > 0), "C05 a request was reported both completed and cancelled")
		verifrt.Assert(nc <= 1, "C05 completed listeners notified more than once for one request")
		verifrt.Assert(ncan <= 1, "C05 cancelled listeners notified more than once for one request")
		if nc == 1 {
			verifrt.Assert(e.Completed[kk][0].IsTerminal(), "C05 completed listener called with a non-terminal status")
			verifrt.Cover("completed")
		}
		if ncan == 1 {
			verifrt.Cover("cancelled")
		}
		if nerr > 0 {
			verifrt.Cover("network-error")
		}
		_, still := ps.RequestStates[kit.ReqID(r)]
		verifrt.AssertKF(!still, "C05 responder still lists state for a request after all activity ended", "C05-F1", false)
		tag := string(pA) + "/" + kit.ReqID(r).Tag()
		verifrt.AssertKF(e.Protects[tag] == e.Unprotects[tag], "C05 connection protection taken for a request was not released exactly as often", "C05-F1", false)
		verifrt.Assert(e.Protects[tag] >= 1, "C05 no connection protection taken for a received request")
	}
	st := e.TQ.Stats()
	verifrt.Assert(st.Active == 0 && st.Pending == 0, "C23 work queue reports active or pending tasks after every request ended")
	// AFTER: nothing of the retired requests lingers in the peer's link
	// tracking either: a fresh request of the same peer for the same DAG gets
	// every block the responder has
	if verifrt.Param("AFTER", 0) == 1 {
		e.S.Net.NoFaults = true
		mark := len(e.S.Net.Sent)
		kf := key{pA, kit.ReqID(9)}
		e.ReqVerdict[kf] = HookAccept
		e.NewRequest(pA, 9)
		Drain()
		nblk := 0
		for _, m := range e.S.Net.Sent[mark:] {
			nblk += len(m.Blocks())
		}
		want := 0
		for _, h := range has {
			if !h {
				break
			}
			want++
		}
		verifrt.Eventf("follow-up request: %s blocks-on-wire=%d want=%d", e.Outcome(kf), nblk, want)
		verifrt.Assert(len(e.Completed[kf]) == 1, "C05 a request received after the earlier ones were retired was not completed")
		verifrt.Assert(nblk == want, "C05/C19 a later request of the same peer was not sent every block: tracking state of a retired request was kept")
		verifrt.Cover("follow-up-request")
	}
	verifrt.Reached("end-lifecycle")
}
