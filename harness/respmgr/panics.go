// verif:dir zz_verif/respmgr
package respmgr

import (
	"github.com/ipld/go-ipld-prime"
	"github.com/ipld/go-ipld-prime/datamodel"
	"github.com/ipld/go-ipld-prime/linking"
	"github.com/libp2p/go-libp2p/core/peer"

	"github.com/ipfs/go-graphsync"
	"github.com/ipfs/go-graphsync/internal/verifrt"
	"github.com/ipfs/go-graphsync/zz_verif/kit"
)

const (
	panicInDecoder = iota
	panicInChooser
	panicInStorageRead
	nPanicSites
)

// VerifResp_Panic (C22, responder): a panic raised by a user-supplied
// function while block j of one request is handled fails only that request.
func VerifResp_Panic() {
	verifrt.SetNativeQuiesceMs(350)
	k := 3
	has := []bool{true, true, true}
	site := verifrt.Choose("panic-site", nPanicSites)
	at := verifrt.Choose("panic-at-block", k)
	e := NewEnv(kit.Chain(k), has, 2, 0, 1<<40, 1<<30)
	e.S.Net.NoFaults = true
	pA, pB := peer.ID("peerA"), peer.ID("peerB")
	kA, kB := key{pA, kit.ReqID(0)}, key{pB, kit.ReqID(1)}
	e.ReqVerdict[kA], e.ReqVerdict[kB] = HookAccept, HookAccept
	// the panic fires once, for request A's traversal (the first to reach it)
	fired := false
	boom := func(i int) {
		if i == at && !fired {
			fired = true
			panic("verif: injected panic")
		}
	}
	switch site {
	case panicInDecoder:
		e.Store.OnDecode = boom
	case panicInStorageRead:
		e.Store.OnRead = boom
	case panicInChooser:
		e.Chooser = func(l ipld.Link, lc linking.LinkContext) (datamodel.NodePrototype, error) {
			boom(kit.LinkIndex(l))
			return kit.Chooser(l, lc)
		}
	}
	e.NewRequest(pA, 0)
	Drain()
	// a second request from another peer, after the panic
	e.NewRequest(pB, 1)
	Drain()
	verifrt.Eventf("site=%d at=%d fired=%v panics=%d A:%s B:%s", site, at, fired, len(e.Panics), e.Outcome(kA), e.Outcome(kB))
	region := site == panicInStorageRead
	verifrt.AssertKF(fired, "C22 harness: the injected panic never fired", "C22-F1", region)
	verifrt.AssertKF(len(e.Panics) == 1, "C22 the panic callback was not called exactly once for the panic", "C22-F1", region)
	verifrt.AssertKF(len(e.Completed[kA]) == 1 && e.Completed[kA][0] == graphsync.RequestFailedUnknown, "C22 the request whose code panicked was not failed with an error status", "C22-F1", region)
	verifrt.AssertKF(len(e.Completed[kB]) == 1 && e.Completed[kB][0] == graphsync.RequestCompletedFull, "C22 another request was affected by the panic", "C22-F1", region)
	verifrt.Reached("end-panic")
}
