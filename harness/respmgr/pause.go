// verif:dir zz_verif/respmgr
package respmgr

import (
	"fmt"

	"github.com/libp2p/go-libp2p/core/peer"

	"github.com/ipfs/go-graphsync"
	"github.com/ipfs/go-graphsync/internal/verifrt"
	"github.com/ipfs/go-graphsync/zz_verif/kit"
)

const (
	pauseNone = iota
	pauseAPIAtRead   // PauseResponse issued while block j is being read
	pauseBlockHook   // outgoing block hook pauses at block index j
	pauseRequestHook // request hook starts the response paused
	nPauseModes
)

func wireString(w *wire) string {
	s := "md="
	for _, v := range w.md {
		s += fmt.Sprintf("%d:%v,", v.Link, v.Present)
	}
	s += " blocks="
	for i := 0; i < 16; i++ {
		if w.blocks[i] > 0 {
			s += fmt.Sprintf("%dx%d,", i, w.blocks[i])
		}
	}
	// intermediate PartialResponse/RequestPaused statuses depend on message
	// batching: only the final status is compared
	if len(w.statuses) > 0 {
		s += fmt.Sprintf(" final=%d", w.statuses[len(w.statuses)-1])
	}
	return s
}

// respExchange runs one response with (or without) a pause and returns what
// went on the wire, and whether block data was sent while the response was
// paused.
func respExchange(dag *kit.DAG, has []bool, mode, at int) (string, bool, bool) {
	e := NewEnv(dag, has, 1, 0, 1<<40, 1<<30)
	e.S.Net.NoFaults = true
	pA := peer.ID("peerA")
	kA := key{pA, kit.ReqID(0)}
	e.ReqVerdict[kA] = HookAccept
	paused := false
	switch mode {
	case pauseAPIAtRead:
		reads := 0
		e.Store.OnRead = func(i int) {
			reads++
			if reads == at && !paused {
				paused = true
				_ = e.RM.PauseResponse(e.Ctx, kit.ReqID(0))
			}
		}
	case pauseBlockHook:
		e.BlockPauseAt[kA] = at
	case pauseRequestHook:
		e.ReqVerdict[kA] = HookPause
	}
	e.NewRequest(pA, 0)
	Drain()
	dataWhilePaused := false
	wasPaused := false
	var unpauseAt []int // number of messages on the wire when each unpause was issued
	msgCount := func() int {
		n := 0
		for _, sm := range e.S.Net.SentTo {
			if sm.To == pA {
				n++
			}
		}
		return n
	}
	for round := 0; round < 4; round++ {
		st, ok := e.RM.PeerState(pA).RequestStates[kit.ReqID(0)]
		if !ok || st != graphsync.Paused {
			break
		}
		wasPaused = true
		// while paused nothing more goes out
		before := collect(e, pA, 0)
		Drain()
		after := collect(e, pA, 0)
		if len(after.blocks) != len(before.blocks) || len(after.md) != len(before.md) {
			dataWhilePaused = true
		}
		sawPausedStatus := false
		for _, s := range after.statuses {
			if s == graphsync.RequestPaused {
				sawPausedStatus = true
			}
		}
		if !sawPausedStatus {
			dataWhilePaused = true // the requestor was never told
		}
		e.BlockPauseAt[kA] = 0
		unpauseAt = append(unpauseAt, msgCount())
		_ = e.RM.UnpauseResponse(e.Ctx, kit.ReqID(0))
		Drain()
	}
	// wire view: after a message announcing RequestPaused, no later message may
	// carry link metadata or blocks of this response until the harness unpaused
	{
		idx := 0
		pausedSince := -1
		for _, sm := range e.S.Net.SentTo {
			if sm.To != pA {
				continue
			}
			resumed := false
			for _, u := range unpauseAt {
				if pausedSince >= 0 && u > pausedSince && u <= idx {
					resumed = true
				}
			}
			if resumed {
				pausedSince = -1
			}
			for _, rsp := range sm.Msg.Responses() {
				if rsp.RequestID() != kit.ReqID(0) {
					continue
				}
				if pausedSince >= 0 && (rsp.Metadata().Length() > 0 || len(sm.Msg.Blocks()) > 0) {
					dataWhilePaused = true
				}
				if rsp.Status() == graphsync.RequestPaused {
					pausedSince = idx
				}
			}
			idx++
		}
	}
	w := collect(e, pA, 0)
	out := wireString(w) + " " + e.Outcome(kA)
	_, listed := e.RM.PeerState(pA).RequestStates[kit.ReqID(0)]
	out += fmt.Sprintf(" listed=%v", listed)
	return out, dataWhilePaused, wasPaused
}

// VerifResp_PauseResume (C06, responder): pausing a response at any block, by
// any mechanism, and resuming it yields the same wire output (metadata, blocks,
// final status) as the uninterrupted response, and nothing is sent while it is
// paused.
func VerifResp_PauseResume() {
	verifrt.SetNativeQuiesceMs(350)
	n := 1 + verifrt.Choose("blocks", verifrt.Param("BLOCKS", 3))
	dag := kit.ChooseDAG(n, 0, false, verifrt.Choose)
	has := make([]bool, n)
	for i := range has {
		has[i] = verifrt.Bool("present")
	}
	mode := 1 + verifrt.Choose("pause-mode", nPauseModes-1)
	at := 1
	if mode != pauseRequestHook {
		at = 1 + verifrt.Choose("pause-at", n)
	}
	base, _, _ := respExchange(dag, append([]bool(nil), has...), pauseNone, 0)
	with, leaked, wasPaused := respExchange(dag, append([]bool(nil), has...), mode, at)
	verifrt.Eventf("mode=%d at=%d paused=%v", mode, at, wasPaused)
	verifrt.Eventf("uninterrupted: %s", base)
	verifrt.Eventf("paused:        %s", with)
	if wasPaused {
		verifrt.Cover("was-paused")
	}
	verifrt.Assert(base == with, "C06 pausing and resuming a response changed what the responder sent")
	verifrt.Assert(!leaked, "C06 the responder sent data for a paused response, or never told the requestor it paused")
	if mode == pauseAPIAtRead || mode == pauseRequestHook {
		// these always take effect unless the traversal ended first
		_ = wasPaused
	}
	verifrt.Reached("end-pause")
}
