// verif:dir zz_verif/e2e
// verif:needs reqmgr respmgr
//
// Harness group e2e: the whole real requestor and the whole real responder
// (both compositions of the reqmgr and respmgr groups) in one world, wired
// back to back: every message the requestor builds is handed to the
// responder's ProcessRequests, every message the responder's queue sends is
// handed to the requestor's ProcessResponses.
package e2e

import (
	"fmt"

	"github.com/libp2p/go-libp2p/core/peer"

	"github.com/ipfs/go-cid"

	"github.com/ipfs/go-graphsync"
	"github.com/ipfs/go-graphsync/cidset"
	"github.com/ipfs/go-graphsync/dedupkey"
	"github.com/ipfs/go-graphsync/internal/verifrt"
	gsmsg "github.com/ipfs/go-graphsync/message"
	"github.com/ipfs/go-graphsync/zz_verif/kit"
	"github.com/ipfs/go-graphsync/zz_verif/reqmgr"
	"github.com/ipfs/go-graphsync/zz_verif/respmgr"
)

const (
	requestorID = peer.ID("requestor")
	responderID = peer.ID("responder")
)

type World struct {
	Req  *reqmgr.Env
	Resp *respmgr.Env
}

func NewWorld(dag *kit.DAG, local, remote []bool, reqWorkers, respWorkers int) *World {
	w := &World{}
	w.Req = reqmgr.NewEnv(dag, append([]bool(nil), local...), reqWorkers, 0)
	w.Resp = respmgr.NewEnv(dag, append([]bool(nil), remote...), respWorkers, 0, 1<<40, 1<<30)
	w.Resp.S.Net.NoFaults = true
	w.Req.OnSend = func(p peer.ID, reqs []gsmsg.GraphSyncRequest) {
		for _, r := range reqs {
			if r.Type() == graphsync.RequestTypeNew {
				w.Resp.Accept(requestorID, r.ID())
			}
		}
		w.Resp.RM.ProcessRequests(w.Resp.Ctx, requestorID, reqs)
	}
	w.Resp.S.Net.OnSent = func(to peer.ID, m gsmsg.GraphSyncMessage) {
		w.Req.RM.ProcessResponses(responderID, m.Responses(), m.Blocks())
	}
	return w
}

func outcome(rq *reqmgr.Req) string {
	out := "loads="
	for _, d := range rq.Progress {
		if d.IsRoot {
			out += fmt.Sprintf("%d@%s,", d.Block, d.BlockPath)
		}
	}
	out += fmt.Sprintf(" nodes=%d errors=", len(rq.Progress))
	for _, err := range rq.Errors {
		if me, ok := err.(graphsync.RemoteMissingBlockErr); ok {
			out += fmt.Sprintf("missing%d,", kit.LinkIndex(me.Link))
		} else {
			out += fmt.Sprintf("[%v],", err)
		}
	}
	out += fmt.Sprintf(" done=%v/%v", rq.ProgDone, rq.ErrDone)
	return out
}

// stored lists the blocks of the default store as digits and those of the
// alternate store (if any) as letters.
func stored(e *reqmgr.Env, n int) string {
	s := ""
	for i := 0; i < n; i++ {
		if i < len(e.Store.Has) && e.Store.Has[i] {
			s += string(rune('0' + i))
		}
		if e.AltStore != nil && i < len(e.AltStore.Has) && e.AltStore.Has[i] {
			s += string(rune('a' + i))
		}
	}
	return s
}

// twoRoots builds a table with two root blocks (0 and 1) over n-2 shared or
// private blocks: block i >= 2 hangs below root 0, root 1 or both.
func twoRoots(n int) *kit.DAG {
	kids := make([][]int, n)
	for i := 2; i < n; i++ {
		switch verifrt.Choose("below", 3) {
		case 0:
			kids[0] = append(kids[0], i)
		case 1:
			kids[1] = append(kids[1], i)
		case 2:
			kids[0] = append(kids[0], i)
			kids[1] = append(kids[1], i)
		}
	}
	return kit.BuildDAG(kids, nil)
}

// VerifE2E_Concurrent (C20): two requests in flight at once from one
// requestor to one responder over overlapping DAGs each deliver what they
// deliver when run alone.
func VerifE2E_Concurrent() {
	verifrt.SetNativeQuiesceMs(350)
	n := 2 + 1 + verifrt.Choose("shared-blocks", verifrt.Param("BLOCKS", 2))
	dag := twoRoots(n)
	local := make([]bool, n)
	remote := make([]bool, n)
	for i := 0; i < n; i++ {
		remote[i] = true
		if verifrt.Param("LOCALBITS", 0) == 1 {
			local[i] = verifrt.Bool("local")
		}
	}
	workers := verifrt.Param("WORKERS", 2)
	// optionally the second request runs in its own deduplication scope and
	// tells the responder not to send one of the non-root blocks
	var exts1 []graphsync.ExtensionData
	var altLocal []bool
	if verifrt.Param("SCOPES", 1) == 1 && verifrt.Choose("second-request-own-scope", 2) == 1 {
		nd, _ := dedupkey.EncodeDedupKey("scope-1")
		exts1 = append(exts1, graphsync.ExtensionData{Name: graphsync.ExtensionDeDupByKey, Data: nd})
		set := cid.NewSet()
		// ... one it already holds (the purpose of do-not-send-cids)
		k := 2 + verifrt.Choose("do-not-send", n-2)
		if verifrt.Param("ALTSTORE", 0) == 1 && verifrt.Choose("second-request-own-store", 2) == 1 {
			// ... in a store of its own (persistence option), which is what
			// the dedup key is for; the default store may or may not hold it
			altLocal = make([]bool, n)
			altLocal[k] = true
			verifrt.Cover("own-store")
		} else {
			local[k] = true
		}
		set.Add(kit.Cid(k))
		exts1 = append(exts1, graphsync.ExtensionData{Name: graphsync.ExtensionDoNotSendCIDs, Data: cidset.EncodeCidSet(set)})
		verifrt.Cover("own-scope")
	}
	extsOf := func(r int) []graphsync.ExtensionData {
		if r == 1 {
			return exts1
		}
		return nil
	}
	// alone
	alone := make([]string, 2)
	aloneStore := ""
	for r := 0; r < 2; r++ {
		w := NewWorld(dag, local, remote, workers, workers)
		if altLocal != nil {
			w.Req.AltStore = kit.NewStore(dag, append([]bool(nil), altLocal...))
		}
		rq := w.Req.StartAt(responderID, r, r, extsOf(r)...)
		kit.Drain()
		alone[r] = outcome(rq)
		aloneStore += stored(w.Req, n) + "|"
	}
	// together: the second request starts immediately or after the system settled
	w := NewWorld(dag, local, remote, workers, workers)
	if altLocal != nil {
		w.Req.AltStore = kit.NewStore(dag, append([]bool(nil), altLocal...))
	}
	// relative speed of the two traversals: optionally the first store write
	// (or the first store read) of one chosen block is slow, i.e. the goroutine
	// doing it is descheduled until every other goroutine has run as far as it
	// can
	// region of the known finding C20-F1: the store write of a block that both
	// requests traverse is slow
	slowShared := false
	// ... or, whatever the speeds, a block below both roots that must come
	// from the responder while both requests share one deduplication scope:
	// the responder sends its data once, and the request that only gets
	// "present, already sent" may reach it before the other has stored it
	if exts1 == nil {
		for k := 2; k < n; k++ {
			in0, in1 := false, false
			for _, c := range dag.Kids[0] {
				if c == k {
					in0 = true
				}
			}
			for _, c := range dag.Kids[1] {
				if c == k {
					in1 = true
				}
			}
			if in0 && in1 && !local[k] {
				slowShared = true
			}
		}
	}
	switch verifrt.Choose("slow-step", 3) {
	case 1:
		k := 2 + verifrt.Choose("slow-block", n-2)
		in0, in1 := false, false
		for _, c := range dag.Kids[0] {
			if c == k {
				in0 = true
			}
		}
		for _, c := range dag.Kids[1] {
			if c == k {
				in1 = true
			}
		}
		slowShared = slowShared || (in0 && in1)
		hit := false
		w.Req.Store.OnCommit = func(i int) {
			if i == k && !hit {
				hit = true
				verifrt.Quiesce()
			}
		}
		verifrt.Cover("slow-commit")
	case 2:
		k := verifrt.Choose("slow-read-block", n)
		hit := false
		w.Resp.Store.OnRead = func(i int) {
			if i == k && !hit {
				hit = true
				verifrt.Quiesce()
			}
		}
	}
	rq0 := w.Req.StartAt(responderID, 0, 0)
	if verifrt.Choose("second-starts-after-drain", 2) == 1 {
		kit.Drain()
	}
	rq1 := w.Req.StartAt(responderID, 1, 1, exts1...)
	kit.Drain()
	together := []string{outcome(rq0), outcome(rq1)}
	desc := ""
	for i := 0; i < n; i++ {
		desc += fmt.Sprintf("%d:%v ", i, dag.Kids[i])
	}
	verifrt.Eventf("dag %s", desc)
	for r := 0; r < 2; r++ {
		verifrt.Eventf("req%d alone:    %s", r, alone[r])
		verifrt.Eventf("req%d together: %s", r, together[r])
		verifrt.AssertKF(alone[r] == together[r], "C20 a request delivered something different when another request over an overlapping DAG was in flight", "C20-F1", slowShared)
	}
	// union of what the solo runs stored is what the concurrent run stored
	union := map[byte]bool{}
	for i := 0; i < len(aloneStore); i++ {
		union[aloneStore[i]] = true
	}
	tog := stored(w.Req, n)
	for i := 0; i < 2*n; i++ {
		c := byte('0' + i)
		if i >= n {
			c = byte('a' + i - n)
		}
		has := false
		for j := 0; j < len(tog); j++ {
			if tog[j] == c {
				has = true
			}
		}
		verifrt.AssertKF(has == union[c], "C20 the blocks stored by concurrent requests differ from those stored when each runs alone", "C20-F1", slowShared)
	}
	verifrt.Reached("end-concurrent")
}

// VerifE2E_Exchange (C02 end to end): one request between the real requestor
// and the real responder (no responder model) over every DAG and store split;
// same oracle as VerifReq_Cooperative.
func VerifE2E_Exchange() {
	verifrt.SetNativeQuiesceMs(350)
	n := verifrt.Param("BLOCKS", 3)
	if verifrt.Param("EXACT", 0) == 0 {
		n = 1 + verifrt.Choose("blocks", n)
	}
	dag := kit.ChooseDAG(n, verifrt.Param("NEST", 1), verifrt.Param("SHARED", 1) == 1, verifrt.Choose)
	local := make([]bool, n)
	remote := make([]bool, n)
	for i := 0; i < n; i++ {
		local[i] = verifrt.Bool("local")
		remote[i] = verifrt.Bool("remote")
	}
	w := NewWorld(dag, local, remote, 1, 1)
	rq := w.Req.StartAt(responderID, 0, 0)
	kit.Drain()
	ref := reqmgr.RefRequest(dag, func(i int) bool { return local[i] }, func(i int) bool { return remote[i] })
	// the local prefix and whether everything is local
	allLocal := true
	{
		var visit func(i int) bool
		visit = func(i int) bool {
			if !local[i] {
				return false
			}
			for _, k := range dag.Kids[i] {
				if !visit(k) {
					return false
				}
			}
			return true
		}
		allLocal = visit(0)
	}
	desc := ""
	for i := 0; i < n; i++ {
		desc += fmt.Sprintf("%d:%v ", i, dag.Kids[i])
	}
	got := outcome(rq)
	verifrt.Eventf("dag %s -> %s stored=%s", desc, got, stored(w.Req, n))
	verifrt.Assert(rq.ProgDone && rq.ErrDone, "C04 result channels not closed after the exchange ended")
	if allLocal {
		verifrt.Cover("all-local")
		verifrt.Assert(len(w.Req.Sent) == 0, "C24 requestor that holds every block still sent something to the network")
	}
	if !ref[0].Resolved || (!allLocal && !remote[0]) {
		verifrt.Assert(len(rq.Errors) >= 1, "C02 no error reported although the root block cannot be obtained")
		verifrt.Reached("end-exchange")
		return
	}
	want := "loads="
	nMissing := 0
	wantMissing := ""
	withheldRegion := false
	// known finding C02-F2: a block only the responder can supply that sits
	// among the responder's first N link loads, N being the requestor's count
	// of locally loaded blocks
	localPrefix := 0
	for _, l := range ref {
		if l.Resolved && local[l.Link] {
			localPrefix++
		} else {
			break
		}
	}
	respVisits := kit.RefTraversal(dag, func(i int) bool { return remote[i] })
	for _, l := range ref {
		if l.Resolved {
			want += fmt.Sprintf("%d@%s,", l.Link, l.Path)
		} else {
			nMissing++
			wantMissing += fmt.Sprintf("missing%d,", l.Link)
		}
		if l.Remote {
			for idx, v := range respVisits {
				if v.Link == l.Link && v.Present && idx+1 <= localPrefix {
					withheldRegion = true
				}
			}
		}
	}
	gotLoads := "loads="
	for _, d := range rq.Progress {
		if d.IsRoot {
			gotLoads += fmt.Sprintf("%d@%s,", d.Block, d.BlockPath)
		}
	}
	gotMissing := ""
	other := 0
	for _, err := range rq.Errors {
		if me, ok := err.(graphsync.RemoteMissingBlockErr); ok {
			gotMissing += fmt.Sprintf("missing%d,", kit.LinkIndex(me.Link))
		} else {
			other++
		}
	}
	verifrt.AssertKF(gotLoads == want, "C02 blocks delivered end to end differ from the blocks either peer can supply, or their order", "C02-F2", withheldRegion)
	verifrt.AssertKF(gotMissing == wantMissing && other == 0, "C02 missing-block errors end to end do not match exactly the links neither side can supply", "C02-F2", withheldRegion)
	for _, l := range ref {
		if l.Remote {
			verifrt.AssertKF(l.Link < len(w.Req.Store.Has) && w.Req.Store.Has[l.Link], "C02 a block obtained from the responder was not stored locally", "C02-F2", withheldRegion)
			verifrt.Cover("remote-block-stored")
		}
	}
	verifrt.Reached("end-exchange")
}
