# sourced by setup.sh and check
export GOFLAGS=-mod=mod GOPROXY=off GOTOOLCHAIN=local GONOSUMDB=* GONOSUMCHECK=1 GOFLAGS=-mod=mod
export PATH=/opt/veriftools/go1.26.8/bin:$PATH
