package main

import (
	"encoding/json"
	"fmt"
	"os"
	"os/exec"
	"path/filepath"
	"sort"
	"strings"
	"time"

	"gosym/interp"
)

type oblEvidence struct {
	Entry        string           `json:"entry"`
	What         string           `json:"what,omitempty"`
	Bounds       *Bounds          `json:"bounds"`
	Paths        int              `json:"paths"`
	Transitions  int              `json:"choice_tree_edges"`
	ByOutcome    map[string]int   `json:"paths_by_outcome"`
	Cover        map[string]int   `json:"cover"`
	Queries      map[string]int64 `json:"queries"`
	SolverS      float64          `json:"solver_time_s"`
	WallS        float64          `json:"wall_s"`
	Witness      string           `json:"witness_twin"`
	Inconclusive []string         `json:"inconclusive,omitempty"`
	NativeReplay map[string]int   `json:"native_replay,omitempty"`
	Switches     int              `json:"context_switches"`
	Steps        int64            `json:"ssa_instructions_executed"`
}

type evidence struct {
	prop       string
	spec       PropSpec
	obls       []*oblEvidence
	samples    []any
	funcs      map[string]int
	natives    map[string]bool
	states     int
	trans      int
	validated  int
	violations int
	known      []string
	kfList     []KnownFinding
}

func newEvidence(prop string, spec PropSpec) *evidence {
	_, list := loadKF()
	return &evidence{prop: prop, spec: spec, funcs: map[string]int{}, natives: map[string]bool{}, kfList: list}
}

func (ev *evidence) kfText(id string) string {
	for _, k := range ev.kfList {
		if k.ID == id {
			return k.WhatFails
		}
	}
	return id
}

type replayInput struct {
	Name  string `json:"name"`
	Value uint64 `json:"value"`
}

type replayFileT struct {
	Property string           `json:"property"`
	Entry    string           `json:"entry"`
	Group    string           `json:"group"`
	Params   map[string]int64 `json:"params"`
	Inputs   []replayInput    `json:"inputs"`
	Label    string           `json:"label"`
	Kind     string           `json:"kind"`
	Msg      string           `json:"msg,omitempty"`
	Events   []string         `json:"events"`
	Trace    []int            `json:"decisions,omitempty"`
	KF       string           `json:"known_finding,omitempty"`
	Sched    string           `json:"sched,omitempty"`
	Preempt  int              `json:"preempt,omitempty"`
}

func mkReplay(prop string, o Obligation, b *Bounds, entry string, nd []interp.NondetRec, events []string) replayFileT {
	rf := replayFileT{Property: prop, Entry: shortEntry(entry), Group: o.Group, Params: b.Params, Events: events, Sched: b.Sched, Preempt: b.Preempt}
	for _, r := range nd {
		rf.Inputs = append(rf.Inputs, replayInput{r.Name, r.Value})
	}
	return rf
}

func shortEntry(e string) string {
	if i := strings.LastIndex(e, "."); i >= 0 {
		return e[i+1:]
	}
	return e
}

// add folds one obligation's exploration into the evidence and returns the
// exit code contribution (0 ok, 1 violation, 2 inconclusive).
func (ev *evidence) add(l *loaded, o Obligation, b *Bounds, res *interp.Result) int {
	oe := &oblEvidence{
		Entry: o.Entry, What: o.What, Bounds: b, Paths: res.Paths, Transitions: res.Transitions,
		ByOutcome: res.ByOutcome, Cover: res.Covers,
		Queries: map[string]int64{
			"total": int64(res.Solver.Queries), "sat": int64(res.Solver.Sat), "unsat": int64(res.Solver.Unsat),
			"unknown": int64(res.Solver.Unknown), "errors": int64(res.Solver.Errors), "syntactic_cache_hits": int64(res.Solver.CacheHits),
			"feasibility_unknown_treated_feasible": int64(res.FeasUnknown),
		},
		SolverS: float64(res.Solver.TimeNs) / 1e9, WallS: res.WallS, Inconclusive: res.Inconclusive,
		Switches: res.Switches, Steps: res.Steps,
	}
	ev.obls = append(ev.obls, oe)
	ev.states += res.Paths
	ev.trans += res.Transitions
	for f, n := range res.Funcs {
		ev.funcs[f] = n
	}
	for n := range res.Natives {
		ev.natives[n] = true
	}
	code := 0
	// samples + native validation of passing paths
	var sampleFiles []replayFileT
	for _, s := range res.Samples {
		rf := mkReplay(ev.prop, o, b, s.Entry, s.Nondet, s.Events)
		rf.Kind = "sample"
		rf.Trace = s.Trace
		sampleFiles = append(sampleFiles, rf)
		if len(ev.samples) < 6 {
			ev.samples = append(ev.samples, map[string]any{"entry": o.Entry, "outcome": s.Outcome, "decisions": len(s.Trace), "inputs": rf.Inputs, "events": truncList(s.Events, 40), "path_condition": s.PC})
		}
	}
	if len(sampleFiles) > 0 && !*flagNoNative && b.Native != "off" {
		okN, badN, msgs := nativeReplay(o.Group, sampleFiles)
		oe.NativeReplay = map[string]int{"passing_paths_replayed": okN + badN, "trace_identical": okN, "mismatch": badN}
		ev.validated += okN
		if badN > 0 && b.Native != "besteffort" {
			for _, m := range msgs {
				fmt.Println("ERROR native-replay-mismatch " + m)
			}
			code = max(code, 2)
		}
	}
	for id := range res.KnownSeen {
		line := fmt.Sprintf("KNOWN-FINDING: property=%s %s [%s]", ev.prop, ev.kfText(id), id)
		fmt.Println(line)
		ev.known = append(ev.known, id)
	}
	for i, v := range res.Violations {
		rf := mkReplay(ev.prop, o, b, v.Entry, v.Nondet, v.Events)
		rf.Label, rf.Kind, rf.Msg, rf.Trace, rf.KF = v.Label, v.Kind, v.Msg, v.Trace, v.KF
		os.MkdirAll(*flagOut, 0o755)
		path := filepath.Join(*flagOut, fmt.Sprintf("%s-%s-%d.json", ev.prop, o.Entry, i))
		bts, _ := json.MarshalIndent(rf, "", " ")
		os.WriteFile(path, bts, 0o644)
		if *flagWitness {
			fmt.Printf("witness reached: %s\n", v.Label)
			continue
		}
		confirmed := "engine-only"
		if !*flagNoNative && b.Native != "off" {
			okN, _, msgs := nativeReplay(o.Group, []replayFileT{rf})
			if okN == 1 {
				confirmed = "native"
			} else {
				confirmed = "not-reproduced: " + strings.Join(msgs, "; ")
			}
		}
		if strings.HasPrefix(confirmed, "not-reproduced") && b.Sched != "all" && b.Preempt == 0 && b.Native != "besteffort" {
			fmt.Printf("ERROR spurious counterexample (does not replay natively) %s: %s — %s [%s]\n", o.Entry, v.Label, v.Msg, confirmed)
			code = max(code, 2)
			continue
		}
		ev.violations++
		fmt.Printf("VIOLATION property=%s replay=%s\n", ev.prop, path)
		fmt.Printf("  entry=%s label=%q %s (replay: %s)\n", o.Entry, v.Label, v.Msg, confirmed)
		code = max(code, 1)
	}
	if len(res.Inconclusive) > 0 {
		for _, m := range res.Inconclusive {
			fmt.Printf("ERROR inconclusive %s: %s\n", o.Entry, m)
		}
		code = max(code, 2)
	}
	if res.BoundExceeded {
		fmt.Printf("ERROR BOUND-EXCEEDED %s: path budget reached with work left\n", o.Entry)
		code = max(code, 2)
	}
	if res.Solver.Errors > 0 {
		fmt.Printf("ERROR solver reported %d error lines\n", res.Solver.Errors)
		code = max(code, 2)
	}
	return code
}

func truncList(l []string, n int) []string {
	if len(l) > n {
		return append(append([]string{}, l[:n]...), fmt.Sprintf("… %d more", len(l)-n))
	}
	return l
}

func (ev *evidence) witness(o Obligation, ok bool, res *interp.Result) {
	for _, oe := range ev.obls {
		if oe.Entry == o.Entry {
			if ok {
				oe.Witness = "violated as required (end of harness reachable)"
			} else {
				oe.Witness = "NOT violated: harness end unreachable"
			}
		}
	}
}

func (ev *evidence) finish(l *loaded, wall float64, exit int) {
	if ev.prop == "" {
		return
	}
	var fnames []string
	gsInstr := 0
	for f, n := range ev.funcs {
		if strings.Contains(f, "go-graphsync") && !strings.Contains(f, "zz_verif") && !strings.Contains(f, "internal/verifrt") {
			fnames = append(fnames, fmt.Sprintf("%s (%d instr)", f, n))
			gsInstr += n
		}
	}
	sort.Strings(fnames)
	var nat []string
	for n := range ev.natives {
		nat = append(nat, n)
	}
	sort.Strings(nat)
	tier := *flagTier
	cov := map[string]any{
		"states":                        max(ev.states, 1),
		"transitions":                   max(ev.trans, 1),
		"traces_validated_against_impl": ev.validated,
		"samples":                       ev.samples,
		"exhaustive":                    exit == 0,
		"states_are":                    "terminated symbolic paths (each stands for all input values satisfying its path condition)",
		"transitions_are":               "edges of the explored choice tree (solver-decided branches, finite choices, scheduling decisions)",
		"obligations_run":               ev.obls,
		"functions_encoded":             fnames,
		"graphsync_ssa_instructions":    gsInstr,
		"other_functions_executed":      len(ev.funcs) - len(fnames),
		"stubs_used":                    nat,
		"inits_run":                     l.prog.InitsRun,
		"inits_partial":                 l.prog.InitsPartial,
		"known_findings_seen":           ev.known,
		"outside_claim":                 ev.spec.Outside,
		"ssa_load_and_init_s":           l.loadS,
		"exit_code":                     exit,
	}
	if len(ev.samples) == 0 {
		cov["samples"] = []any{"no passing path sampled"}
	}
	out := map[string]any{
		"property_id": ev.prop,
		"tier":        tier,
		"seed":        *flagSeed,
		"level":       "model_checking",
		"coverage":    cov,
		"assumptions": append([]string{
			"bounded symbolic execution: every claim is within the listed bounds only",
			"interpreter semantics (fork of x/tools go/ssa/interp) and listed stubs are trusted; sequentially consistent execution, data races out of scope",
		}, ev.spec.Assumptions...),
		"wall_s":     wall,
		"violations": ev.violations,
	}
	os.MkdirAll(*flagEvidence, 0o755)
	b, _ := json.MarshalIndent(out, "", " ")
	os.WriteFile(filepath.Join(*flagEvidence, ev.prop+".json"), b, 0o644)
}

// ---------------------------------------------------------------------
// Native replay: run the same harness function compiled by the real
// toolchain with verifrt in replay mode and compare the event traces.

func nativeReplay(group string, files []replayFileT) (ok, bad int, msgs []string) {
	ov, pkgs, err := overlayFor([]string{group})
	if err != nil || len(pkgs) == 0 {
		return 0, len(files), []string{fmt.Sprint("overlay: ", err)}
	}
	tmp, err := os.MkdirTemp("", "gosym-replay-")
	if err != nil {
		return 0, len(files), []string{err.Error()}
	}
	defer os.RemoveAll(tmp)
	// locate the harness package dir and name, and its entries
	var pkgDir, pkgName string
	entries := map[string]bool{}
	repl := map[string]string{}
	n := 0
	for virt, content := range ov {
		real := filepath.Join(tmp, fmt.Sprintf("f%d.go", n))
		n++
		os.WriteFile(real, content, 0o644)
		repl[virt] = real
		if strings.Contains(virt, "internal/verifrt") || strings.Contains(virt, "zz_verif/kit/") {
			continue
		}
		if strings.Contains(virt, "/zz_verif/") && !strings.Contains(virt, "/zz_verif/"+group+"/") {
			continue // a group this one imports
		}
		pkgDir = filepath.Dir(virt)
		for _, line := range strings.Split(string(content), "\n") {
			if strings.HasPrefix(line, "package ") && pkgName == "" {
				pkgName = strings.TrimSpace(strings.TrimPrefix(line, "package "))
			}
			if strings.HasPrefix(line, "func Verif") {
				name := strings.TrimPrefix(line, "func ")
				if i := strings.Index(name, "("); i > 0 {
					entries[name[:i]] = true
				}
			}
		}
	}
	var sb strings.Builder
	fmt.Fprintf(&sb, "package %s\n\nimport (\n\t\"testing\"\n\t\"github.com/ipfs/go-graphsync/internal/verifrt\"\n)\n\nfunc TestVerifReplay(t *testing.T) {\n\tok := verifrt.ReplayMain(map[string]func(){\n", pkgName)
	var es []string
	for e := range entries {
		es = append(es, e)
	}
	sort.Strings(es)
	for _, e := range es {
		fmt.Fprintf(&sb, "\t\t%q: %s,\n", e, e)
	}
	sb.WriteString("\t})\n\tif !ok {\n\t\tt.Fail()\n\t}\n}\n")
	testReal := filepath.Join(tmp, "replay_test.go")
	os.WriteFile(testReal, []byte(sb.String()), 0o644)
	repl[filepath.Join(pkgDir, "zz_verif_replay_test.go")] = testReal
	ovJSON, _ := json.Marshal(map[string]any{"Replace": repl})
	ovPath := filepath.Join(tmp, "overlay.json")
	os.WriteFile(ovPath, ovJSON, 0o644)
	rfPath := filepath.Join(tmp, "replay.json")
	rb, _ := json.Marshal(files)
	os.WriteFile(rfPath, rb, 0o644)
	rel, _ := filepath.Rel(*flagRepo, pkgDir)
	bin := filepath.Join(tmp, "replay.test")
	build := exec.Command("go", "test", "-c", "-vet=off", "-overlay", ovPath, "-o", bin, "./"+rel)
	build.Dir = *flagRepo
	build.Env = append(os.Environ(), "GOFLAGS=-mod=mod", "GOPROXY=off", "GOTOOLCHAIN=local")
	t0 := time.Now()
	if bo, err := build.CombinedOutput(); err != nil {
		return 0, len(files), []string{"native build failed: " + truncateS(string(bo), 1500)}
	}
	cmd := exec.Command(bin, "-test.run", "TestVerifReplay", "-test.v", "-test.timeout", "10m")
	cmd.Dir = tmp
	cmd.Env = append(os.Environ(), "VERIF_REPLAY="+rfPath)
	outB, _ := cmd.CombinedOutput()
	out := string(outB)
	if *flagV {
		fmt.Printf("native replay (%d files) took %.1fs\n", len(files), time.Since(t0).Seconds())
	}
	// parse
	type got struct {
		events  []string
		outcome string
	}
	results := map[int]*got{}
	var cur *got
	for _, line := range strings.Split(out, "\n") {
		line = strings.TrimRight(line, "\r")
		switch {
		case strings.HasPrefix(line, "VERIF-REPLAY-BEGIN "):
			var i int
			fmt.Sscanf(line, "VERIF-REPLAY-BEGIN %d", &i)
			cur = &got{}
			results[i] = cur
		case strings.HasPrefix(line, "VERIF-EVENT ") && cur != nil:
			cur.events = append(cur.events, strings.TrimPrefix(line, "VERIF-EVENT "))
		case strings.HasPrefix(line, "VERIF-REPLAY-END ") && cur != nil:
			parts := strings.SplitN(line, " ", 3)
			if len(parts) == 3 {
				cur.outcome = parts[2]
			}
			cur = nil
		}
	}
	for i, f := range files {
		g := results[i]
		if g == nil {
			bad++
			tail := out
			if len(tail) > 1500 {
				tail = tail[len(tail)-1500:]
			}
			msgs = append(msgs, fmt.Sprintf("%s: no native result; output tail: %s", f.Entry, tail))
			continue
		}
		switch f.Kind {
		case "sample":
			if g.outcome == "DONE" && eqStrings(g.events, f.Events) {
				ok++
			} else if strings.HasPrefix(g.outcome, "KNOWN-FINDING ") && isPrefix(g.events, f.Events) {
				// the sampled input lies in the region of a listed known finding
				ok++
			} else {
				bad++
				msgs = append(msgs, fmt.Sprintf("%s sample: native outcome %q, events native=%v engine=%v", f.Entry, g.outcome, truncList(g.events, 30), truncList(f.Events, 30)))
			}
		case "assert":
			if g.outcome == "ASSERT-FAILED "+f.Label || (f.KF != "" && g.outcome == "KNOWN-FINDING "+f.KF+" "+f.Label) {
				ok++
			} else {
				bad++
				msgs = append(msgs, fmt.Sprintf("native outcome %q, expected assertion %q to fail", g.outcome, f.Label))
			}
		case "crash":
			if strings.HasPrefix(g.outcome, "PANIC") {
				ok++
			} else {
				bad++
				msgs = append(msgs, fmt.Sprintf("native outcome %q, expected a crash", g.outcome))
			}
		case "main-blocked":
			if g.outcome == "TIMEOUT" {
				ok++
			} else {
				bad++
				msgs = append(msgs, fmt.Sprintf("native outcome %q, expected the harness to block", g.outcome))
			}
		default:
			bad++
			msgs = append(msgs, "unknown replay kind "+f.Kind)
		}
	}
	return
}

func truncateS(s string, n int) string {
	if len(s) > n {
		return s[len(s)-n:]
	}
	return s
}

func isPrefix(a, b []string) bool {
	if len(a) > len(b) {
		return false
	}
	return eqStrings(a, b[:len(a)])
}

func eqStrings(a, b []string) bool {
	if len(a) != len(b) {
		return false
	}
	for i := range a {
		if a[i] != b[i] {
			return false
		}
	}
	return true
}

func replayFile(path string, props map[string]PropSpec) int {
	b, err := os.ReadFile(path)
	if err != nil {
		die(2, "ERROR %v", err)
	}
	var rf replayFileT
	if err := json.Unmarshal(b, &rf); err != nil {
		die(2, "ERROR %v", err)
	}
	okN, _, msgs := nativeReplay(rf.Group, []replayFileT{rf})
	if okN == 1 {
		fmt.Printf("replay reproduces natively: %s %s %q\n", rf.Entry, rf.Kind, rf.Label)
		fmt.Printf("VIOLATION property=%s replay=%s\n", rf.Property, path)
		return 1
	}
	fmt.Printf("replay does not reproduce: %v\n", msgs)
	return 0
}
