// Command gosym: bounded symbolic execution of go-graphsync harnesses.
//
//	gosym -prop C13 -tier quick          run every obligation of a property
//	gosym -group alloc -entry VerifX     (development) run one entry
package main

import (
	"encoding/json"
	"flag"
	"go/ast"
	"go/token"
	"fmt"
	"os"
	"path/filepath"
	"sort"
	"strconv"
	"strings"
	"time"

	"golang.org/x/tools/go/packages"
	"golang.org/x/tools/go/ssa"
	"golang.org/x/tools/go/ssa/ssautil"

	"gosym/interp"
)

const modPath = "github.com/ipfs/go-graphsync"

// Obligation is one harness entry with its bounds per tier.
type Obligation struct {
	Entry    string           `json:"entry"`
	Group    string           `json:"group"`
	What     string           `json:"what"`
	Quick    *Bounds          `json:"quick"`
	Thorough *Bounds          `json:"thorough"`
	// Cover: labels of verifrt.Cover points that some explored path must reach;
	// a run in which one of them is reached by no path is vacuous (exit 2)
	Cover []string `json:"cover,omitempty"`
}

type Bounds struct {
	Params     map[string]int64 `json:"params"`
	Sched      string           `json:"sched"` // "fifo" (default) or "all"
	Preempt    int              `json:"preempt"`
	MaxPaths   int              `json:"max_paths"`
	MaxSteps   int64            `json:"max_steps"`
	Ticks      int              `json:"ticker_budget"`
	Concretize int              `json:"max_concretize"`
	MaxWallS   int              `json:"max_wall_s"`
	Encoding   string           `json:"encoding"` // "bv" (default) or "int"
	// Native: "strict" (default): sampled passing paths must replay natively
	// with identical event traces and counterexamples must reproduce natively;
	// "besteffort" (harnesses with real goroutines/timers, where the native
	// schedule is not controlled): mismatches are recorded, not fatal, and an
	// engine counterexample is reported even if the native run does not
	// reproduce it; "off": no native runs.
	Native string `json:"native,omitempty"`
}

type PropSpec struct {
	Title       string       `json:"title"`
	Obligations []Obligation `json:"obligations"`
	Assumptions []string     `json:"assumptions"`
	Outside     []string     `json:"outside_claim"`
}

type KnownFinding struct {
	Property  string `json:"property"`
	ID        string `json:"id"`
	Status    string `json:"status"`
	Commit    string `json:"commit,omitempty"`
	WhatFails string `json:"what_fails"`
}

var (
	flagRepo     = flag.String("repo", "/repo", "repository under test")
	flagHarness  = flag.String("harness", baseDir()+"/harness", "harness directory")
	flagProp     = flag.String("prop", "", "property id")
	flagTier     = flag.String("tier", "quick", "quick|thorough")
	flagGroup    = flag.String("group", "", "(dev) harness group")
	flagEntry    = flag.String("entry", "", "(dev) entry function, or restrict -prop to one obligation")
	flagWorkers  = flag.Int("workers", 0, "worker count (default: min(16, NumCPU))")
	flagSeed     = flag.Int64("seed", 0, "seed (VERIF_SEED)")
	flagV        = flag.Bool("v", false, "verbose")
	flagEvidence = flag.String("evidence", baseDir()+"/evidence", "evidence directory")
	flagKF       = flag.String("kf", baseDir()+"/known_findings.json", "known findings file")
	flagWallCap  = flag.Int("wallcap", 0, "cap on every obligation's max_wall_s (calibration runs)")
	flagParams   = flag.String("params", "", "(dev) K=3,N=2")
	flagSched    = flag.String("sched", "", "(dev) fifo|all")
	flagPreempt  = flag.Int("preempt", 0, "(dev) preemption bound")
	flagMaxPaths = flag.Int("maxpaths", 0, "(dev) path budget")
	flagConc     = flag.Int("concretize", 0, "(dev) concretisation fan-out bound")
	flagWitness  = flag.Bool("witness", false, "(dev) run as witness twin")
	flagReplay   = flag.String("replay", "", "replay a counterexample file natively")
	flagNoNative = flag.Bool("nonative", false, "skip native replay validation")
	flagSolver   = flag.String("solver", "z3", "z3|z3-new|cvc5")
	flagOut      = flag.String("cexdir", baseDir()+"/cex", "counterexample directory")
	flagEnc      = flag.String("enc", "", "(dev) bv|int")
)

// baseDir is the directory that holds bin/, harness/, evidence/ (the binary
// is bin/gosym), so that a snapshot copy of /verif runs against itself.
func baseDir() string {
	exe, err := os.Executable()
	if err != nil {
		return "/verif"
	}
	if r, err := filepath.EvalSymlinks(exe); err == nil {
		exe = r
	}
	d := filepath.Dir(filepath.Dir(exe))
	if _, err := os.Stat(filepath.Join(d, "harness")); err != nil {
		return "/verif"
	}
	return d
}

func die(code int, format string, args ...any) {
	fmt.Printf(format+"\n", args...)
	os.Exit(code)
}

func main() {
	flag.Parse()
	if _, err := os.Stat("/opt/veriftools/go1.26.8/bin/go"); err == nil {
		os.Setenv("PATH", "/opt/veriftools/go1.26.8/bin:"+os.Getenv("PATH"))
	}
	os.Setenv("GOFLAGS", "-mod=mod")
	os.Setenv("GOPROXY", "off")
	os.Setenv("GOTOOLCHAIN", "local")
	if s := os.Getenv("VERIF_SEED"); s != "" && *flagSeed == 0 {
		if v, err := strconv.ParseInt(s, 10, 64); err == nil {
			*flagSeed = v
		}
	}
	if t := os.Getenv("VERIF_TIER"); t != "" {
		*flagTier = t
	}
	if *flagWorkers == 0 {
		*flagWorkers = 16
	}
	props := loadProps()
	if *flagReplay != "" {
		os.Exit(replayFile(*flagReplay, props))
	}
	var obls []Obligation
	var spec PropSpec
	if *flagProp != "" {
		var ok bool
		spec, ok = props[*flagProp]
		if !ok {
			die(2, "ERROR unknown property %s", *flagProp)
		}
		for _, o := range spec.Obligations {
			if *flagEntry == "" || o.Entry == *flagEntry {
				obls = append(obls, o)
			}
		}
	} else if *flagGroup != "" && *flagEntry != "" {
		b := &Bounds{Params: map[string]int64{}, Sched: *flagSched, Preempt: *flagPreempt, MaxPaths: *flagMaxPaths, Encoding: *flagEnc, Concretize: *flagConc}
		for _, kv := range strings.Split(*flagParams, ",") {
			if k, v, ok := strings.Cut(kv, "="); ok {
				n, _ := strconv.ParseInt(v, 10, 64)
				b.Params[k] = n
			}
		}
		obls = []Obligation{{Entry: *flagEntry, Group: *flagGroup, Quick: b, Thorough: b}}
	} else {
		die(2, "usage: gosym -prop ID -tier quick|thorough")
	}
	if len(obls) == 0 {
		die(2, "ERROR no obligations selected")
	}
	os.Exit(runObligations(*flagProp, spec, obls))
}

func loadProps() map[string]PropSpec {
	props := map[string]PropSpec{}
	files, _ := filepath.Glob(filepath.Join(*flagHarness, "props.d", "*.json"))
	for _, f := range files {
		b, err := os.ReadFile(f)
		if err != nil {
			die(2, "ERROR %s: %v", f, err)
		}
		one := map[string]PropSpec{}
		if err := json.Unmarshal(b, &one); err != nil {
			die(2, "ERROR %s: %v", f, err)
		}
		for k, v := range one {
			props[k] = v
		}
	}
	return props
}

func loadKF() (map[string]string, []KnownFinding) {
	m := map[string]string{}
	var list []KnownFinding
	b, err := os.ReadFile(*flagKF)
	if err != nil {
		return m, nil
	}
	if err := json.Unmarshal(b, &list); err != nil {
		die(2, "ERROR known_findings.json: %v", err)
	}
	for _, k := range list {
		m[k.ID] = k.Status
	}
	return m, list
}

// overlayFor maps the harness files of the given groups (plus verifrt) to
// virtual files under the repository.
func overlayFor(groups []string) (map[string][]byte, []string, error) {
	ov := map[string][]byte{}
	pkgs := map[string]bool{}
	add := func(dir string) error {
		ents, err := os.ReadDir(dir)
		if err != nil {
			return err
		}
		for _, e := range ents {
			if e.IsDir() || !strings.HasSuffix(e.Name(), ".go") || strings.HasSuffix(e.Name(), "_test.go") {
				continue
			}
			b, err := os.ReadFile(filepath.Join(dir, e.Name()))
			if err != nil {
				return err
			}
			rel := ""
			for _, line := range strings.SplitN(string(b), "\n", 6) {
				if strings.HasPrefix(line, "// verif:dir ") {
					rel = strings.TrimSpace(strings.TrimPrefix(line, "// verif:dir "))
				}
			}
			if rel == "" {
				return fmt.Errorf("%s/%s: missing '// verif:dir' header", dir, e.Name())
			}
			ov[filepath.Join(*flagRepo, rel, "zz_verif_"+e.Name())] = b
			if filepath.Base(dir) != "verifrt" && filepath.Base(dir) != "kit" {
				pkgs[modPath+"/"+rel] = true
			}
		}
		return nil
	}
	if err := add(filepath.Join(*flagHarness, "verifrt")); err != nil {
		return nil, nil, err
	}
	// kit: support package shared by the harness groups (stub network, DAG
	// tables, the assembled sending stack)
	if _, err := os.Stat(filepath.Join(*flagHarness, "kit")); err == nil {
		if err := add(filepath.Join(*flagHarness, "kit")); err != nil {
			return nil, nil, err
		}
	}
	// a group may declare other groups it imports: "// verif:needs a b"
	done := map[string]bool{}
	var addGroup func(g string, asPattern bool) error
	addGroup = func(g string, asPattern bool) error {
		if done[g] {
			return nil
		}
		done[g] = true
		dir := filepath.Join(*flagHarness, g)
		before := map[string]bool{}
		for k := range pkgs {
			before[k] = true
		}
		if err := add(dir); err != nil {
			return err
		}
		if !asPattern {
			for k := range pkgs {
				if !before[k] {
					delete(pkgs, k)
				}
			}
		}
		ents, _ := os.ReadDir(dir)
		for _, e := range ents {
			if !strings.HasSuffix(e.Name(), ".go") {
				continue
			}
			b, _ := os.ReadFile(filepath.Join(dir, e.Name()))
			for _, line := range strings.SplitN(string(b), "\n", 8) {
				if strings.HasPrefix(line, "// verif:needs ") {
					for _, dep := range strings.Fields(strings.TrimPrefix(line, "// verif:needs ")) {
						if err := addGroup(dep, false); err != nil {
							return err
						}
					}
				}
			}
		}
		return nil
	}
	for _, g := range groups {
		if err := addGroup(g, true); err != nil {
			return nil, nil, err
		}
	}
	var pl []string
	for p := range pkgs {
		pl = append(pl, p)
	}
	sort.Strings(pl)
	return ov, pl, nil
}

type loaded struct {
	prog  *interp.Program
	ssa   *ssa.Program
	pkgs  []*ssa.Package
	loadS float64
}

func load(groups []string) (*loaded, error) {
	t0 := time.Now()
	ov, patterns, err := overlayFor(groups)
	if err != nil {
		return nil, err
	}
	cfg := &packages.Config{
		Mode:       packages.LoadAllSyntax,
		Dir:        *flagRepo,
		Overlay:    ov,
		BuildFlags: []string{"-tags=verif"},
		Env:        append(os.Environ(), "GOFLAGS=-mod=mod", "GOPROXY=off", "GOTOOLCHAIN=local"),
	}
	initial, err := packages.Load(cfg, patterns...)
	if err != nil {
		return nil, err
	}
	nerr := 0
	packages.Visit(initial, nil, func(p *packages.Package) {
		for _, e := range p.Errors {
			if nerr < 20 {
				fmt.Printf("load error: %v\n", e)
			}
			nerr++
		}
	})
	if nerr > 0 {
		return nil, fmt.Errorf("%d package load errors", nerr)
	}
	sprog, spkgs := ssautil.AllPackages(initial, ssa.InstantiateGenerics)
	sprog.Build()
	var hp []*ssa.Package
	for _, p := range spkgs {
		if p != nil {
			hp = append(hp, p)
		}
	}
	p := interp.NewProgram(sprog)
	p.Verbose = *flagV
	// //go:embed variables are filled in by the linker, not by init code
	packages.Visit(initial, nil, func(pk *packages.Package) {
		for _, f := range pk.Syntax {
			for _, d := range f.Decls {
				gd, ok := d.(*ast.GenDecl)
				if !ok || gd.Tok != token.VAR || gd.Doc == nil {
					continue
				}
				for _, c := range gd.Doc.List {
					if !strings.HasPrefix(c.Text, "//go:embed ") {
						continue
					}
					pat := strings.TrimSpace(strings.TrimPrefix(c.Text, "//go:embed "))
					dir := filepath.Dir(pk.Fset.Position(f.Pos()).Filename)
					data, err := os.ReadFile(filepath.Join(dir, pat))
					if err != nil {
						continue
					}
					for _, sp := range gd.Specs {
						if vs, ok := sp.(*ast.ValueSpec); ok && len(vs.Names) == 1 {
							p.SetEmbed(pk.PkgPath, vs.Names[0].Name, data)
						}
					}
				}
			}
		}
	})
	kf, _ := loadKF()
	p.SetKnownFindings(kf)
	if err := p.RunInit(hp); err != nil {
		return nil, err
	}
	return &loaded{prog: p, ssa: sprog, pkgs: hp, loadS: time.Since(t0).Seconds()}, nil
}

func findEntry(l *loaded, name string) *ssa.Function {
	for _, p := range l.pkgs {
		if f := p.Func(name); f != nil {
			return f
		}
	}
	// a group that another requested group depends on is loaded as a
	// dependency only
	for _, p := range l.ssa.AllPackages() {
		if strings.Contains(p.Pkg.Path(), "zz_verif") || strings.HasPrefix(p.Pkg.Path(), modPath) {
			if f := p.Func(name); f != nil && strings.HasPrefix(name, "Verif") {
				return f
			}
		}
	}
	return nil
}

func boundsOf(o Obligation) *Bounds {
	b := o.Quick
	if *flagTier == "thorough" && o.Thorough != nil {
		b = o.Thorough
	}
	if b == nil {
		b = &Bounds{}
	}
	return b
}

func cfgOf(b *Bounds) interp.RunConfig {
	return interp.RunConfig{
		Workers:       *flagWorkers,
		Seed:          *flagSeed,
		SchedAll:      b.Sched == "all",
		Preempt:       b.Preempt,
		MaxPaths:      b.MaxPaths,
		MaxSteps:      b.MaxSteps,
		TickerBudget:  b.Ticks,
		MaxConcretize: b.Concretize,
		MaxWallS:      capWall(b.MaxWallS),
		IntEncoding:   b.Encoding == "int",
		LabelPrefix:   *flagProp,
		Params:        b.Params,
		Solver:        *flagSolver,
	}
}

func capWall(w int) int {
	if *flagWallCap > 0 && (w == 0 || w > *flagWallCap) {
		return *flagWallCap
	}
	return w
}

func runObligations(prop string, spec PropSpec, obls []Obligation) int {
	t0 := time.Now()
	gset := map[string]bool{}
	for _, o := range obls {
		gset[o.Group] = true
	}
	var groups []string
	for g := range gset {
		groups = append(groups, g)
	}
	sort.Strings(groups)
	l, err := load(groups)
	if err != nil {
		die(2, "ERROR harness-build %v", err)
	}
	if *flagV {
		fmt.Printf("loaded in %.1fs; inits run: %d, skipped: %d, partial: %v\n", l.loadS, len(l.prog.InitsRun), len(l.prog.InitsSkipped), l.prog.InitsPartial)
	}
	ev := newEvidence(prop, spec)
	exit := 0
	for _, o := range obls {
		fn := findEntry(l, o.Entry)
		if fn == nil {
			fmt.Printf("ERROR harness-build entry %s not found\n", o.Entry)
			exit = max(exit, 2)
			continue
		}
		b := boundsOf(o)
		cfg := cfgOf(b)
		if *flagWitness {
			cfg.Witness = true
			cfg.StopAfterViol = 1
		}
		res := l.prog.Explore(fn, cfg)
		fmt.Println(res.Summary())
		if *flagV {
			fmt.Printf("  cover: %v\n", res.Covers)
			for i, sm := range res.Samples {
				if i < 3 {
					fmt.Printf("  sample events: %v\n", sm.Events)
				}
			}
		}
		code := ev.add(l, o, b, res)
		if !*flagWitness {
			for _, c := range o.Cover {
				if res.Covers[c] == 0 && len(res.Violations) == 0 {
					fmt.Printf("ERROR vacuous: no explored path of %s reached the cover point %q\n", o.Entry, c)
					code = max(code, 2)
				}
			}
		}
		// witness twin
		if !*flagWitness && code == 0 {
			wcfg := cfgOf(b)
			wcfg.Witness = true
			wcfg.StopAfterViol = 1
			wres := l.prog.Explore(fn, wcfg)
			ok := false
			for _, v := range wres.Violations {
				if v.Kind == "witness" {
					ok = true
				}
			}
			ev.witness(o, ok, wres)
			if !ok {
				fmt.Printf("ERROR vacuous: witness twin of %s did not reach the end of the harness (%s)\n", o.Entry, wres.Summary())
				code = 2
			}
		}
		exit = max(exit, code)
	}
	ev.finish(l, time.Since(t0).Seconds(), exit)
	return exit
}
