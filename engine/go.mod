module gosym

go 1.26.8

require (
	github.com/multiformats/go-multihash v0.2.3
	golang.org/x/tools v0.50.0
)

require (
	github.com/klauspost/cpuid/v2 v2.3.0 // indirect
	github.com/minio/sha256-simd v1.0.1 // indirect
	github.com/mr-tron/base58 v1.3.0 // indirect
	github.com/multiformats/go-varint v0.1.0 // indirect
	github.com/spaolacci/murmur3 v1.1.0 // indirect
	golang.org/x/crypto v0.53.0 // indirect
	golang.org/x/mod v0.41.0 // indirect
	golang.org/x/sync v0.23.0 // indirect
	golang.org/x/sys v0.48.0 // indirect
	lukechampine.com/blake3 v1.4.1 // indirect
)
