// Copyright 2013 The Go Authors. All rights reserved.
// Use of this source code is governed by a BSD-style
// license that can be found in the LICENSE file.

package interp

// Values
//
// All interpreter values are "boxed" in the empty interface, value.
// The range of possible dynamic types within value are:
//
// - bool
// - numbers (all built-in int/float/complex types are distinguished)
// - string
// - map[value]value --- maps for which  usesBuiltinMap(keyType)
//   *hashmap        --- maps for which !usesBuiltinMap(keyType)
// - chan value
// - []value --- slices
// - iface --- interfaces.
// - structure --- structs.  Fields are ordered and accessed by numeric indices.
// - array --- arrays.
// - *value --- pointers.  Careful: *value is a distinct type from *array etc.
// - *ssa.Function \
//   *ssa.Builtin   } --- functions.  A nil 'func' is always of type *ssa.Function.
//   *closure      /
// - tuple --- as returned by Return, Next, "value,ok" modes, etc.
// - iter --- iterators from 'range' over map or string.
// - bad --- a poison pill for locals that have gone out of scope.
// - rtype -- the interpreter's concrete implementation of reflect.Type
// - **deferred -- the address of a frame's defer stack for a Defer._Stack.
//
// Note that nil is not on this list.
//
// Pay close attention to whether or not the dynamic type is a pointer.
// The compiler cannot help you since value is an empty interface.

import (
	"bytes"
	"fmt"
	"go/types"
	"io"
	"strings"
	"unsafe"

	"golang.org/x/tools/go/ssa"
)

type value any

type tuple []value

type array []value

type iface struct {
	t types.Type // never an "untyped" type
	v value
}

type structure []value

// For map, array, *array, slice, string or channel.
type iter interface {
	// next returns a Tuple (key, value, ok).
	// key and value are unaliased, e.g. copies of the sequence element.
	next() tuple
}

type closure struct {
	Fn  *ssa.Function
	Env []value
}

type bad struct{}

func (x array) eq(t types.Type, _y any) bool {
	y := _y.(array)
	tElt := t.Underlying().(*types.Array).Elem()
	for i, xi := range x {
		if !equals(tElt, xi, y[i]) {
			return false
		}
	}
	return true
}

func (x structure) eq(t types.Type, _y any) bool {
	y := _y.(structure)
	tStruct := t.Underlying().(*types.Struct)
	for i, n := 0, tStruct.NumFields(); i < n; i++ {
		// (upstream skipped embedded fields here: a bug; only blank
		// fields are ignored by Go's ==)
		if f := tStruct.Field(i); f.Name() != "_" {
			if !equals(f.Type(), x[i], y[i]) {
				return false
			}
		}
	}
	return true
}

// nil-tolerant variant of types.Identical.
func sameType(x, y types.Type) bool {
	if x == nil {
		return y == nil
	}
	return y != nil && types.Identical(x, y)
}

func (x iface) eq(t types.Type, _y any) bool {
	y := _y.(iface)
	return sameType(x.t, y.t) && (x.t == nil || equals(x.t, x.v, y.v))
}

// equals returns true iff x and y are equal according to Go's
// linguistic equivalence relation for type t.
// In a well-typed program, the dynamic types of x and y are
// guaranteed equal.
func equals(t types.Type, x, y value) bool {
	if sx, ok := x.(sym); ok {
		return sx.w.decide(sx.w.tt.eq(sx.t, sx.w.termOf(y)))
	}
	if sy, ok := y.(sym); ok {
		return sy.w.decide(sy.w.tt.eq(sy.w.termOf(x), sy.t))
	}
	switch x := x.(type) {
	case bool:
		return x == y.(bool)
	case int:
		return x == y.(int)
	case int8:
		return x == y.(int8)
	case int16:
		return x == y.(int16)
	case int32:
		return x == y.(int32)
	case int64:
		return x == y.(int64)
	case uint:
		return x == y.(uint)
	case uint8:
		return x == y.(uint8)
	case uint16:
		return x == y.(uint16)
	case uint32:
		return x == y.(uint32)
	case uint64:
		return x == y.(uint64)
	case uintptr:
		return x == y.(uintptr)
	case float32:
		return x == y.(float32)
	case float64:
		return x == y.(float64)
	case complex64:
		return x == y.(complex64)
	case complex128:
		return x == y.(complex128)
	case string:
		return x == y.(string)
	case *value:
		return x == y.(*value)
	case *chanObj:
		return x == y.(*chanObj)
	case structure:
		return x.eq(t, y)
	case array:
		return x.eq(t, y)
	case iface:
		return x.eq(t, y)
	case unsafe.Pointer:
		return x == y.(unsafe.Pointer)
	case rtype:
		yr, ok := y.(rtype)
		return ok && types.Identical(x.t, yr.t)
	}

	// Since map, func and slice don't support comparison, this
	// case is only reachable if one of x or y is literally nil
	// (handled in eqnil) or via interface{} values.
	panic(targetPanic{iface{t: types.Typ[types.String], v: fmt.Sprintf("runtime error: comparing uncomparable type %s", t)}})
}

// concreteEquals is equals for values known to contain no symbolic parts.
func concreteEquals(t types.Type, x, y value) bool {
	switch x := x.(type) {
	case string:
		ys, ok := y.(string)
		return ok && x == ys
	case *value:
		yp, ok := y.(*value)
		return ok && x == yp
	}
	return equals(t, x, y)
}

// reflect.Value struct values don't have a fixed shape, since the
// payload can be a scalar or an aggregate depending on the instance.
// So store (and load) can't simply use recursion over the shape of the
// rhs value, or the lhs, to copy the value; we need the static type
// information.  (We can't make reflect.Value a new basic data type
// because its "structness" is exposed to Go programs.)

// load returns the value of type T in *addr.
func load(T types.Type, addr *value) value {
	switch T := T.Underlying().(type) {
	case *types.Struct:
		v := (*addr).(structure)
		a := make(structure, len(v))
		for i := range a {
			a[i] = load(T.Field(i).Type(), &v[i])
		}
		return a
	case *types.Array:
		v := (*addr).(array)
		a := make(array, len(v))
		for i := range a {
			a[i] = load(T.Elem(), &v[i])
		}
		return a
	default:
		return *addr
	}
}

// store stores value v of type T into *addr.
func store(T types.Type, addr *value, v value) {
	switch T := T.Underlying().(type) {
	case *types.Struct:
		lhs := (*addr).(structure)
		rhs := v.(structure)
		for i := range lhs {
			store(T.Field(i).Type(), &lhs[i], rhs[i])
		}
	case *types.Array:
		lhs := (*addr).(array)
		rhs := v.(array)
		for i := range lhs {
			store(T.Elem(), &lhs[i], rhs[i])
		}
	default:
		*addr = v
	}
}

// Prints in the style of built-in println.
// (More or less; in gc println is actually a compiler intrinsic and
// can distinguish println(1) from println(interface{}(1)).)
func writeValue(buf *bytes.Buffer, v value) {
	switch v := v.(type) {
	case nil, bool, int, int8, int16, int32, int64, uint, uint8, uint16, uint32, uint64, uintptr, float32, float64, complex64, complex128, string:
		fmt.Fprintf(buf, "%v", v)

	case *omap:
		buf.WriteString("map[")
		if v != nil {
			sep := ""
			for _, e := range v.ents {
				if e.dead {
					continue
				}
				buf.WriteString(sep)
				sep = " "
				writeValue(buf, e.key)
				buf.WriteString(":")
				writeValue(buf, e.val)
			}
		}
		buf.WriteString("]")

	case *chanObj:
		fmt.Fprintf(buf, "%p", v)

	case sym:
		buf.WriteString("<sym " + truncate(v.t.String(), 80) + ">")

	case *value:
		if v == nil {
			buf.WriteString("<nil>")
		} else {
			fmt.Fprintf(buf, "%p", v)
		}

	case iface:
		fmt.Fprintf(buf, "(%s, ", v.t)
		writeValue(buf, v.v)
		buf.WriteString(")")

	case structure:
		buf.WriteString("{")
		for i, e := range v {
			if i > 0 {
				buf.WriteString(" ")
			}
			writeValue(buf, e)
		}
		buf.WriteString("}")

	case array:
		buf.WriteString("[")
		for i, e := range v {
			if i > 0 {
				buf.WriteString(" ")
			}
			writeValue(buf, e)
		}
		buf.WriteString("]")

	case []value:
		buf.WriteString("[")
		for i, e := range v {
			if i > 0 {
				buf.WriteString(" ")
			}
			writeValue(buf, e)
		}
		buf.WriteString("]")

	case *ssa.Function, *ssa.Builtin, *closure:
		fmt.Fprintf(buf, "%p", v) // (an address)

	case tuple:
		// Unreachable in well-formed Go programs
		buf.WriteString("(")
		for i, e := range v {
			if i > 0 {
				buf.WriteString(", ")
			}
			writeValue(buf, e)
		}
		buf.WriteString(")")

	default:
		fmt.Fprintf(buf, "<%T>", v)
	}
}

// Implements printing of Go values in the style of built-in println.
func toString(v value) string {
	var b bytes.Buffer
	writeValue(&b, v)
	return b.String()
}

// ------------------------------------------------------------------------
// Iterators

type stringIter struct {
	*strings.Reader
	i int
}

func (it *stringIter) next() tuple {
	okv := make(tuple, 3)
	ch, n, err := it.ReadRune()
	ok := err != io.EOF
	okv[0] = ok
	if ok {
		okv[1] = it.i
		okv[2] = ch
	}
	it.i += n
	return okv
}

