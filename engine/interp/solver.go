package interp

// One long-lived SMT solver process per worker, spoken to over a pipe.

import (
	"bufio"
	"fmt"
	"io"
	"os"
	"os/exec"
	"strconv"
	"strings"
	"time"
)

type solverStats struct {
	Queries   int
	Sat       int
	Unsat     int
	Unknown   int
	Errors    int
	TimeNs    int64
	CacheHits int
	Retries   int
}

type solver struct {
	name  string
	cmd   *exec.Cmd
	in    io.WriteCloser
	out   *bufio.Reader
	stats solverStats
	log   io.Writer // optional transcript
	dead  bool
	intEnc bool
}

// solverCommand returns argv for a named back end.
func solverCommand(name string, timeoutMs int) []string {
	switch name {
	case "z3-new":
		return []string{"z3-new", "-in", fmt.Sprintf("-t:%d", timeoutMs)}
	case "cvc5":
		return []string{"cvc5", "--incremental", "--lang=smt2", fmt.Sprintf("--tlimit-per=%d", timeoutMs)}
	default:
		return []string{"z3", "-in", fmt.Sprintf("-t:%d", timeoutMs)}
	}
}

func newSolver(name string, timeoutMs int, intEnc bool) (*solver, error) {
	argv := solverCommand(name, timeoutMs)
	cmd := exec.Command(argv[0], argv[1:]...)
	in, err := cmd.StdinPipe()
	if err != nil {
		return nil, err
	}
	out, err := cmd.StdoutPipe()
	if err != nil {
		return nil, err
	}
	cmd.Stderr = cmd.Stdout
	if err := cmd.Start(); err != nil {
		return nil, err
	}
	s := &solver{name: name, cmd: cmd, in: in, out: bufio.NewReaderSize(out, 1<<16)}
	if dir := os.Getenv("GOSYM_SOLVERLOG"); dir != "" {
		f, _ := os.CreateTemp(dir, "solver-*.smt2")
		s.log = f
	}
	if name == "cvc5" {
		s.send("(set-logic ALL)")
	}
	s.send("(set-option :produce-models true)")
	s.intEnc = intEnc
	if intEnc {
		s.send(intPreamble)
	}
	return s, nil
}

func (s *solver) close() {
	if s == nil || s.dead {
		return
	}
	s.dead = true
	s.in.Close()
	s.cmd.Process.Kill()
	s.cmd.Wait()
}

func (s *solver) send(cmd string) {
	if s.log != nil {
		fmt.Fprintln(s.log, cmd)
	}
	io.WriteString(s.in, cmd)
	io.WriteString(s.in, "\n")
}

func (s *solver) readLine() string {
	line, err := s.out.ReadString('\n')
	if err != nil {
		s.dead = true
		return "(error \"solver died: " + err.Error() + "\")"
	}
	line = strings.TrimSpace(line)
	if s.log != nil {
		fmt.Fprintln(s.log, "; <- "+line)
	}
	return line
}

// checkSat returns "sat", "unsat" or "unknown" (errors and timeouts are
// reported as unknown and counted).
func (s *solver) checkSat() string {
	t0 := time.Now()
	ask := func(cmd string) string {
		s.send(cmd)
		for {
			l := s.readLine()
			if l != "" {
				return l
			}
		}
	}
	var line string
	if s.name == "cvc5" || s.intEnc {
		line = ask("(check-sat)")
	} else {
		// z3's incremental core is weak on bit-vector arithmetic once
		// push/pop has been used; the qfbv tactic (bit-blasting) is not.
		line = ask("(check-sat-using qfbv)")
		if line != "sat" && line != "unsat" && !s.dead {
			s.stats.Retries++
			line = ask("(check-sat)")
		}
	}
	s.stats.Queries++
	s.stats.TimeNs += time.Since(t0).Nanoseconds()
	if s.log != nil {
		fmt.Fprintf(s.log, "; time %.3fs\n", time.Since(t0).Seconds())
	}
	switch line {
	case "sat":
		s.stats.Sat++
		return "sat"
	case "unsat":
		s.stats.Unsat++
		return "unsat"
	case "unknown", "timeout":
		s.stats.Unknown++
		return "unknown"
	}
	s.stats.Errors++
	// drain a possibly multi-line error
	return "unknown"
}

// getValues asks for the values of the named constants after a sat answer.
func (s *solver) getValues(vars []*term) map[string]uint64 {
	res := make(map[string]uint64)
	if len(vars) == 0 {
		return res
	}
	var sb strings.Builder
	sb.WriteString("(get-value (")
	for _, v := range vars {
		sb.WriteString(v.name + " ")
	}
	sb.WriteString("))")
	s.send(sb.String())
	// read a balanced s-expression
	depth := 0
	var text strings.Builder
	started := false
	for {
		line := s.readLine()
		text.WriteString(line + " ")
		for _, c := range line {
			if c == '(' {
				depth++
				started = true
			} else if c == ')' {
				depth--
			}
		}
		if (started && depth <= 0) || s.dead {
			break
		}
		if !started && line != "" {
			break
		}
	}
	toks := tokenize(text.String())
	// shape: ( ( name value ) ( name value ) ... ) where value is #x.., #b..,
	// true/false or (_ bvN W)
	i := 0
	next := func() string {
		if i < len(toks) {
			t := toks[i]
			i++
			return t
		}
		return ""
	}
	if next() != "(" {
		return res
	}
	for i < len(toks) {
		t := next()
		if t == ")" {
			break
		}
		if t != "(" {
			continue
		}
		name := next()
		v := next()
		var val uint64
		switch {
		case v == "true":
			val = 1
		case v == "false":
			val = 0
		case strings.HasPrefix(v, "#x"):
			val, _ = strconv.ParseUint(v[2:], 16, 64)
		case strings.HasPrefix(v, "#b"):
			val, _ = strconv.ParseUint(v[2:], 2, 64)
		case v == "(":
			// (_ bvN W) or (- N)
			h := next()
			if h == "-" {
				n, _ := strconv.ParseUint(next(), 10, 64)
				next() // )
				val = -n
			} else {
				bv := next()
				next() // width
				next() // )
				val, _ = strconv.ParseUint(strings.TrimPrefix(bv, "bv"), 10, 64)
			}
		default:
			val, _ = strconv.ParseUint(v, 10, 64)
		}
		next() // )
		res[name] = val
	}
	return res
}

func tokenize(s string) []string {
	var toks []string
	cur := ""
	flush := func() {
		if cur != "" {
			toks = append(toks, cur)
			cur = ""
		}
	}
	for _, c := range s {
		switch c {
		case '(', ')':
			flush()
			toks = append(toks, string(c))
		case ' ', '\t', '\n', '\r':
			flush()
		default:
			cur += string(c)
		}
	}
	flush()
	return toks
}
