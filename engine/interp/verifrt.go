package interp

// Intrinsics of the harness runtime package verifrt.  Compiled natively the
// same functions read a replay file (see /verif/harness/verifrt).

import (
	"fmt"
	"go/types"
)

const vrt = "github.com/ipfs/go-graphsync/internal/verifrt."

func init() {
	mkSym := func(k types.BasicKind) externalFn {
		return func(fr *frame, a []value) value { return fr.w.freshVar(a[0].(string), k) }
	}
	reg(vrt+"U64", mkSym(types.Uint64))
	reg(vrt+"I64", mkSym(types.Int64))
	reg(vrt+"U32", mkSym(types.Uint32))
	reg(vrt+"I32", mkSym(types.Int32))
	reg(vrt+"U8", mkSym(types.Uint8))
	reg(vrt+"Int", mkSym(types.Int))
	reg(vrt+"Bool", mkSym(types.Bool))
	// Bytes(name, max): a non-nil byte slice of opaque content whose length is
	// a solver variable in [0, max].
	reg(vrt+"Bytes", func(fr *frame, a []value) value {
		w := fr.w
		n := w.freshVar(a[0].(string), types.Int).(sym)
		mx := asInt64(a[1])
		lo := w.tt.cmp("bvsle", w.tt.konst(64, 0), n.t)
		hi := w.tt.cmp("bvsle", n.t, w.tt.konst(64, uint64(mx)))
		w.assume(lo)
		w.assume(hi)
		w.counter++
		return symBytes{n: n, id: w.counter}
	})
	reg(vrt+"Choose", func(fr *frame, a []value) value {
		w := fr.w
		n := int(asInt64(a[1]))
		if n <= 0 {
			panic(pathEnd{oEngine, "Choose with n <= 0"})
		}
		v := w.choice(n)
		w.recordChoice(a[0].(string), n, v)
		return v
	})
	reg(vrt+"Assume", func(fr *frame, a []value) value {
		w := fr.w
		switch c := a[0].(type) {
		case bool:
			if !c {
				panic(pathEnd{oInfeasible, "assume false"})
			}
		case sym:
			if w.pos < len(w.prefix.Alts) {
				// replay region: the assumption was satisfiable when first met
				w.assume(c.t)
				return nil
			}
			if w.feasible(c.t) == "unsat" {
				panic(pathEnd{oInfeasible, "assume unsatisfiable"})
			}
			w.assume(c.t)
		}
		return nil
	})
	reg(vrt+"Assert", func(fr *frame, a []value) value {
		fr.w.assert(a[0], a[1].(string))
		return nil
	})
	reg(vrt+"AssertKF", func(fr *frame, a []value) value {
		fr.w.assertKF(a[0], a[1].(string), a[2].(string), a[3])
		return nil
	})
	reg(vrt+"Cover", func(fr *frame, a []value) value {
		fr.w.covers[a[0].(string)] = true
		return nil
	})
	reg(vrt+"Reached", func(fr *frame, a []value) value {
		w := fr.w
		w.covers[a[0].(string)] = true
		if w.cfg.Witness {
			w.violation("witness", a[0].(string), "witness twin: end of harness reached", nil)
		}
		return nil
	})
	reg(vrt+"Event", func(fr *frame, a []value) value {
		fr.w.event(a[0].(string))
		return nil
	})
	reg(vrt+"Eventf", func(fr *frame, a []value) value {
		fr.w.event(fmt.Sprintf(a[0].(string), fr.w.fmtArgs(fr, a[1])...))
		return nil
	})
	reg(vrt+"Quiesce", func(fr *frame, a []value) value { fr.w.quiesce(); return nil })
	reg(vrt+"Yield", func(fr *frame, a []value) value { fr.w.yield(); return nil })
	reg(vrt+"Tick", func(fr *frame, a []value) value { return fr.w.fireTimer(true) })
	reg(vrt+"TickPeriodic", func(fr *frame, a []value) value { return fr.w.firePeriodic() })
	reg(vrt+"Param", func(fr *frame, a []value) value {
		if v, ok := fr.w.cfg.Params[a[0].(string)]; ok {
			return int(v)
		}
		return a[1]
	})
	reg(vrt+"Symbolic", func(fr *frame, a []value) value { return true })
	reg(vrt+"IsSym", func(fr *frame, a []value) value {
		itf := a[0].(iface)
		_, ok := itf.v.(sym)
		return ok
	})
	reg(vrt+"Blocked", func(fr *frame, a []value) value {
		// number of goroutines (other than the caller) currently blocked
		n := 0
		for _, g := range fr.w.sched.gs {
			if g.state == gBlocked {
				n++
			}
		}
		return n
	})
	reg(vrt+"DumpGoroutines", func(fr *frame, a []value) value {
		d := ""
		for _, g := range fr.w.sched.gs {
			st := [...]string{"runnable", "running", "blocked", "done"}[g.state]
			if g.state == gBlocked {
				d += fmt.Sprintf("g%d(%s):%s:%s ", g.id, g.name, st, g.waitDesc)
			}
		}
		fr.w.event("goroutines: " + d)
		return nil
	})
	reg(vrt+"Finish", nop)
	reg(vrt+"SetNativeQuiesceMs", nop)
	// Stub(name, fn): calls to the function named name (ssa String form) are
	// redirected to the harness closure fn for the rest of the path.
	reg(vrt+"Stub", func(fr *frame, a []value) value {
		w := fr.w
		if w.stubs == nil {
			w.stubs = map[string]value{}
		}
		fn := a[1].(iface).v
		w.stubs[a[0].(string)] = fn
		return nil
	})
}
