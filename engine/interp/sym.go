package interp

// Symbolic scalars: SMT terms (bit-vectors and booleans), hash-consed per
// world, with constant folding, and the SMT-LIB2 printer.

import (
	"fmt"
	"go/token"
	"go/types"
	"strings"
)

// term is a node of the SMT term DAG. w==0 means Bool.
type term struct {
	op     string
	w      int
	args   []*term
	val    uint64 // op=="const"
	name   string // op=="var"
	p1, p2 int    // extract hi/lo, or extension amount in p1
	id     int
}

func (t *term) isConst() bool { return t.op == "const" }

func mask(w int) uint64 {
	if w >= 64 {
		return ^uint64(0)
	}
	return (uint64(1) << uint(w)) - 1
}

func signExt(v uint64, w int) int64 {
	if w >= 64 {
		return int64(v)
	}
	sh := uint(64 - w)
	return int64(v<<sh) >> sh
}

type termTable struct {
	tab  map[string]*term
	next int
	vars []*term
}

func newTermTable() *termTable { return &termTable{tab: make(map[string]*term)} }

func (tt *termTable) intern(t *term) *term {
	var sb strings.Builder
	sb.WriteString(t.op)
	fmt.Fprintf(&sb, "/%d", t.w)
	switch t.op {
	case "const":
		fmt.Fprintf(&sb, "/%d", t.val)
	case "var":
		sb.WriteString("/" + t.name)
	case "extract", "zext", "sext":
		fmt.Fprintf(&sb, "/%d/%d", t.p1, t.p2)
	}
	for _, a := range t.args {
		fmt.Fprintf(&sb, ",%d", a.id)
	}
	k := sb.String()
	if e, ok := tt.tab[k]; ok {
		return e
	}
	tt.next++
	t.id = tt.next
	tt.tab[k] = t
	if t.op == "var" {
		tt.vars = append(tt.vars, t)
	}
	return t
}

func (tt *termTable) konst(w int, v uint64) *term {
	if w == 0 {
		v &= 1
	} else {
		v &= mask(w)
	}
	return tt.intern(&term{op: "const", w: w, val: v})
}
func (tt *termTable) tru() *term  { return tt.konst(0, 1) }
func (tt *termTable) fals() *term { return tt.konst(0, 0) }
func (tt *termTable) boolc(b bool) *term {
	if b {
		return tt.tru()
	}
	return tt.fals()
}

func (tt *termTable) variable(name string, w int) *term {
	return tt.intern(&term{op: "var", w: w, name: name})
}

func (tt *termTable) not(a *term) *term {
	if a.isConst() {
		return tt.konst(0, a.val^1)
	}
	if a.op == "not" {
		return a.args[0]
	}
	return tt.intern(&term{op: "not", w: 0, args: []*term{a}})
}

func (tt *termTable) and(a, b *term) *term {
	if a.isConst() {
		if a.val == 0 {
			return a
		}
		return b
	}
	if b.isConst() {
		if b.val == 0 {
			return b
		}
		return a
	}
	if a == b {
		return a
	}
	return tt.intern(&term{op: "and", w: 0, args: []*term{a, b}})
}

func (tt *termTable) or(a, b *term) *term {
	if a.isConst() {
		if a.val == 1 {
			return a
		}
		return b
	}
	if b.isConst() {
		if b.val == 1 {
			return b
		}
		return a
	}
	if a == b {
		return a
	}
	return tt.intern(&term{op: "or", w: 0, args: []*term{a, b}})
}

func (tt *termTable) ite(c, a, b *term) *term {
	if c.isConst() {
		if c.val == 1 {
			return a
		}
		return b
	}
	if a == b {
		return a
	}
	return tt.intern(&term{op: "ite", w: a.w, args: []*term{c, a, b}})
}

func (tt *termTable) eq(a, b *term) *term {
	if a == b {
		return tt.tru()
	}
	if a.isConst() && b.isConst() {
		return tt.boolc(a.val == b.val)
	}
	if a.w != b.w {
		panic(fmt.Sprintf("eq: width mismatch %d vs %d", a.w, b.w))
	}
	if a.id > b.id {
		a, b = b, a
	}
	return tt.intern(&term{op: "=", w: 0, args: []*term{a, b}})
}

// cmp builds a comparison; op in bvult bvule bvslt bvsle.
func (tt *termTable) cmp(op string, a, b *term) *term {
	if a.isConst() && b.isConst() {
		switch op {
		case "bvult":
			return tt.boolc(a.val < b.val)
		case "bvule":
			return tt.boolc(a.val <= b.val)
		case "bvslt":
			return tt.boolc(signExt(a.val, a.w) < signExt(b.val, b.w))
		case "bvsle":
			return tt.boolc(signExt(a.val, a.w) <= signExt(b.val, b.w))
		}
	}
	if a == b {
		return tt.boolc(op == "bvule" || op == "bvsle")
	}
	return tt.intern(&term{op: op, w: 0, args: []*term{a, b}})
}

// bin builds a bit-vector binary operation with Go (wrap-around) semantics.
// Division by a zero constant must have been excluded by the caller.
func (tt *termTable) bin(op string, a, b *term) *term {
	w := a.w
	if a.isConst() && b.isConst() {
		x, y := a.val, b.val
		var r uint64
		ok := true
		switch op {
		case "bvadd":
			r = x + y
		case "bvsub":
			r = x - y
		case "bvmul":
			r = x * y
		case "bvand":
			r = x & y
		case "bvor":
			r = x | y
		case "bvxor":
			r = x ^ y
		case "bvudiv":
			if y == 0 {
				ok = false
			} else {
				r = x / y
			}
		case "bvurem":
			if y == 0 {
				ok = false
			} else {
				r = x % y
			}
		case "bvsdiv":
			if y == 0 {
				ok = false
			} else {
				sx, sy := signExt(x, w), signExt(y, w)
				if sy == -1 {
					r = uint64(-sx)
				} else {
					r = uint64(sx / sy)
				}
			}
		case "bvsrem":
			if y == 0 {
				ok = false
			} else {
				sx, sy := signExt(x, w), signExt(y, w)
				if sy == -1 {
					r = 0
				} else {
					r = uint64(sx % sy)
				}
			}
		case "bvshl":
			if y >= uint64(w) {
				r = 0
			} else {
				r = x << y
			}
		case "bvlshr":
			if y >= uint64(w) {
				r = 0
			} else {
				r = x >> y
			}
		case "bvashr":
			sx := signExt(x, w)
			if y >= uint64(w) {
				if sx < 0 {
					r = ^uint64(0)
				} else {
					r = 0
				}
			} else {
				r = uint64(sx >> y)
			}
		default:
			ok = false
		}
		if ok {
			return tt.konst(w, r)
		}
	}
	// light algebraic simplifications
	switch op {
	case "bvadd", "bvor", "bvxor":
		if a.isConst() && a.val == 0 {
			return b
		}
		if b.isConst() && b.val == 0 {
			return a
		}
	case "bvsub", "bvshl", "bvlshr", "bvashr":
		if b.isConst() && b.val == 0 {
			return a
		}
	case "bvmul":
		if a.isConst() && a.val == 1 {
			return b
		}
		if b.isConst() && b.val == 1 {
			return a
		}
	}
	return tt.intern(&term{op: op, w: w, args: []*term{a, b}})
}

func (tt *termTable) bvnot(a *term) *term {
	if a.isConst() {
		return tt.konst(a.w, ^a.val)
	}
	return tt.intern(&term{op: "bvnot", w: a.w, args: []*term{a}})
}

func (tt *termTable) bvneg(a *term) *term {
	if a.isConst() {
		return tt.konst(a.w, -a.val)
	}
	return tt.intern(&term{op: "bvneg", w: a.w, args: []*term{a}})
}

// resize converts a bit-vector of width a.w to width w, sign- or
// zero-extending according to the *source* signedness (Go semantics).
func (tt *termTable) resize(a *term, w int, srcSigned bool) *term {
	if a.w == w {
		return a
	}
	if a.isConst() {
		if w < a.w {
			return tt.konst(w, a.val)
		}
		if srcSigned {
			return tt.konst(w, uint64(signExt(a.val, a.w)))
		}
		return tt.konst(w, a.val)
	}
	if w < a.w {
		return tt.intern(&term{op: "extract", w: w, args: []*term{a}, p1: w - 1, p2: 0})
	}
	if srcSigned {
		return tt.intern(&term{op: "sext", w: w, args: []*term{a}, p1: w - a.w})
	}
	return tt.intern(&term{op: "zext", w: w, args: []*term{a}, p1: w - a.w})
}

// ---------------------------------------------------------------------
// SMT-LIB printing

func sortOf(w int) string {
	if w == 0 {
		return "Bool"
	}
	return fmt.Sprintf("(_ BitVec %d)", w)
}

func (t *term) ref() string {
	switch t.op {
	case "const":
		if t.w == 0 {
			if t.val == 1 {
				return "true"
			}
			return "false"
		}
		return fmt.Sprintf("(_ bv%d %d)", t.val, t.w)
	case "var":
		return t.name
	}
	return fmt.Sprintf("t%d", t.id)
}

func (t *term) body() string {
	var sb strings.Builder
	switch t.op {
	case "extract":
		fmt.Fprintf(&sb, "((_ extract %d %d) %s)", t.p1, t.p2, t.args[0].ref())
	case "zext":
		fmt.Fprintf(&sb, "((_ zero_extend %d) %s)", t.p1, t.args[0].ref())
	case "sext":
		fmt.Fprintf(&sb, "((_ sign_extend %d) %s)", t.p1, t.args[0].ref())
	default:
		sb.WriteString("(" + t.op)
		for _, a := range t.args {
			sb.WriteString(" " + a.ref())
		}
		sb.WriteString(")")
	}
	return sb.String()
}

// ---------------------------------------------------------------------
// Integer encoding: bit-vectors as mathematical integers in [0, 2^w) with
// explicit wrap-around.  Exactly the same semantics as the bit-vector
// encoding, but linear arithmetic over chains of 64-bit additions and
// comparisons is decided in milliseconds where bit-blasting needs tens of
// seconds.  Bitwise operations on two symbolic operands and symbolic shift
// counts are not encodable (the path then ends as UNSUPPORTED).

const intPreamble = `(define-fun bvwrap ((s Int) (m Int)) Int (ite (>= s m) (- s m) (ite (< s 0) (+ s m) s)))
(define-fun tosigned ((x Int) (m Int)) Int (ite (>= (* 2 x) m) (- x m) x))
(define-fun tdiv ((a Int) (b Int)) Int (ite (>= a 0) (ite (> b 0) (div a b) (- (div a (- b)))) (ite (> b 0) (- (div (- a) b)) (div (- a) (- b)))))
(define-fun trem ((a Int) (b Int)) Int (- a (* b (tdiv a b))))`

func pow2(w int) string {
	switch w {
	case 8:
		return "256"
	case 16:
		return "65536"
	case 32:
		return "4294967296"
	case 64:
		return "18446744073709551616"
	}
	// generic
	r := new(bigInt).pow2(w)
	return r
}

type bigInt struct{}

func (*bigInt) pow2(w int) string {
	// decimal string of 2^w for small w via repeated doubling
	digits := []byte{1}
	for i := 0; i < w; i++ {
		carry := byte(0)
		for j := range digits {
			d := digits[j]*2 + carry
			digits[j] = d % 10
			carry = d / 10
		}
		if carry > 0 {
			digits = append(digits, carry)
		}
	}
	out := make([]byte, len(digits))
	for i := range digits {
		out[len(digits)-1-i] = '0' + digits[i]
	}
	return string(out)
}

func (t *term) refInt() string {
	switch t.op {
	case "const":
		if t.w == 0 {
			if t.val == 1 {
				return "true"
			}
			return "false"
		}
		return fmt.Sprintf("%d", t.val)
	case "var":
		return t.name
	}
	return fmt.Sprintf("t%d", t.id)
}

func sortOfInt(w int) string {
	if w == 0 {
		return "Bool"
	}
	return "Int"
}

// isPow2Mask reports whether v == 2^k - 1 and returns k.
func isPow2Mask(v uint64) (int, bool) {
	if v&(v+1) != 0 {
		return 0, false
	}
	k := 0
	for v != 0 {
		k++
		v >>= 1
	}
	return k, true
}

// bodyInt renders the defining expression of t in the integer encoding; ok is
// false when t is not encodable.
func (t *term) bodyInt() (string, bool) {
	a := func(i int) string { return t.args[i].refInt() }
	m := pow2(t.w)
	switch t.op {
	case "not", "and", "or", "ite", "=":
		s := "(" + t.op
		for i := range t.args {
			s += " " + a(i)
		}
		return s + ")", true
	case "bvult":
		return "(< " + a(0) + " " + a(1) + ")", true
	case "bvule":
		return "(<= " + a(0) + " " + a(1) + ")", true
	case "bvslt", "bvsle":
		mm := pow2(t.args[0].w)
		op := "<"
		if t.op == "bvsle" {
			op = "<="
		}
		return fmt.Sprintf("(%s (tosigned %s %s) (tosigned %s %s))", op, a(0), mm, a(1), mm), true
	case "bvadd":
		return fmt.Sprintf("(bvwrap (+ %s %s) %s)", a(0), a(1), m), true
	case "bvsub":
		return fmt.Sprintf("(bvwrap (- %s %s) %s)", a(0), a(1), m), true
	case "bvneg":
		return fmt.Sprintf("(bvwrap (- 0 %s) %s)", a(0), m), true
	case "bvnot":
		return fmt.Sprintf("(- (- %s 1) %s)", m, a(0)), true
	case "bvmul":
		return fmt.Sprintf("(mod (* %s %s) %s)", a(0), a(1), m), true
	case "bvudiv":
		return fmt.Sprintf("(div %s %s)", a(0), a(1)), true
	case "bvurem":
		return fmt.Sprintf("(mod %s %s)", a(0), a(1)), true
	case "bvsdiv":
		return fmt.Sprintf("(mod (tdiv (tosigned %s %s) (tosigned %s %s)) %s)", a(0), m, a(1), m, m), true
	case "bvsrem":
		return fmt.Sprintf("(mod (trem (tosigned %s %s) (tosigned %s %s)) %s)", a(0), m, a(1), m, m), true
	case "bvand":
		for i := 0; i < 2; i++ {
			if c := t.args[i]; c.isConst() {
				if k, ok := isPow2Mask(c.val); ok {
					return fmt.Sprintf("(mod %s %s)", t.args[1-i].refInt(), pow2(k)), true
				}
			}
		}
		return "", false
	case "bvshl":
		if c := t.args[1]; c.isConst() {
			if c.val >= uint64(t.w) {
				return "0", true
			}
			return fmt.Sprintf("(mod (* %s %s) %s)", a(0), pow2(int(c.val)), m), true
		}
		return "", false
	case "bvlshr":
		if c := t.args[1]; c.isConst() {
			if c.val >= uint64(t.w) {
				return "0", true
			}
			return fmt.Sprintf("(div %s %s)", a(0), pow2(int(c.val))), true
		}
		return "", false
	case "bvashr":
		if c := t.args[1]; c.isConst() {
			k := c.val
			if k >= uint64(t.w) {
				k = uint64(t.w) - 1
			}
			return fmt.Sprintf("(mod (div (tosigned %s %s) %s) %s)", a(0), m, pow2(int(k)), m), true
		}
		return "", false
	case "extract":
		if t.p2 == 0 {
			return fmt.Sprintf("(mod %s %s)", a(0), m), true
		}
		return fmt.Sprintf("(mod (div %s %s) %s)", a(0), pow2(t.p2), m), true
	case "zext":
		return a(0), true
	case "sext":
		return fmt.Sprintf("(mod (tosigned %s %s) %s)", a(0), pow2(t.args[0].w), m), true
	}
	return "", false
}

// String renders a term fully inlined (for diagnostics / samples).
func (t *term) String() string {
	switch t.op {
	case "const", "var":
		return t.ref()
	case "extract":
		return fmt.Sprintf("((_ extract %d %d) %s)", t.p1, t.p2, t.args[0])
	case "zext":
		return fmt.Sprintf("((_ zero_extend %d) %s)", t.p1, t.args[0])
	case "sext":
		return fmt.Sprintf("((_ sign_extend %d) %s)", t.p1, t.args[0])
	}
	var sb strings.Builder
	sb.WriteString("(" + t.op)
	for _, a := range t.args {
		sb.WriteString(" " + a.String())
	}
	sb.WriteString(")")
	return sb.String()
}

// ---------------------------------------------------------------------
// Symbolic interpreter values.

// sym is a symbolic scalar of basic kind k (an integer kind or types.Bool).
type sym struct {
	w *world
	k types.BasicKind
	t *term
}

// symBytes is a non-nil []byte whose content is opaque and whose length is
// a (possibly symbolic) int.  Supported: len, cap, comparison with nil,
// passing and storing by reference.  Indexing, slicing, copying or converting
// it ends the path as UNSUPPORTED.
type symBytes struct {
	n  value // int or sym of kind Int
	id int64
}

func kindWidth(k types.BasicKind) int {
	switch k {
	case types.Bool, types.UntypedBool:
		return 0
	case types.Int8, types.Uint8:
		return 8
	case types.Int16, types.Uint16:
		return 16
	case types.Int32, types.Uint32, types.UntypedRune:
		return 32
	case types.Int, types.Int64, types.Uint, types.Uint64, types.Uintptr, types.UntypedInt:
		return 64
	}
	return -1
}

func kindSigned(k types.BasicKind) bool {
	switch k {
	case types.Int, types.Int8, types.Int16, types.Int32, types.Int64, types.UntypedInt, types.UntypedRune:
		return true
	}
	return false
}

// kindOfValue returns the basic kind of a concrete scalar value, or Invalid.
func kindOfValue(x value) types.BasicKind {
	switch x.(type) {
	case bool:
		return types.Bool
	case int:
		return types.Int
	case int8:
		return types.Int8
	case int16:
		return types.Int16
	case int32:
		return types.Int32
	case int64:
		return types.Int64
	case uint:
		return types.Uint
	case uint8:
		return types.Uint8
	case uint16:
		return types.Uint16
	case uint32:
		return types.Uint32
	case uint64:
		return types.Uint64
	case uintptr:
		return types.Uintptr
	}
	return types.Invalid
}

// concreteOfKind builds the concrete interpreter value of kind k with bits v.
func concreteOfKind(k types.BasicKind, v uint64) value {
	switch k {
	case types.Bool:
		return v&1 == 1
	case types.Int:
		return int(v)
	case types.Int8:
		return int8(v)
	case types.Int16:
		return int16(v)
	case types.Int32:
		return int32(v)
	case types.Int64:
		return int64(v)
	case types.Uint:
		return uint(v)
	case types.Uint8:
		return uint8(v)
	case types.Uint16:
		return uint16(v)
	case types.Uint32:
		return uint32(v)
	case types.Uint64:
		return v
	case types.Uintptr:
		return uintptr(v)
	}
	panic(fmt.Sprintf("concreteOfKind: kind %v", k))
}

func bitsOfValue(x value) uint64 {
	switch x := x.(type) {
	case bool:
		if x {
			return 1
		}
		return 0
	case int:
		return uint64(x)
	case int8:
		return uint64(x)
	case int16:
		return uint64(x)
	case int32:
		return uint64(x)
	case int64:
		return uint64(x)
	case uint:
		return uint64(x)
	case uint8:
		return uint64(x)
	case uint16:
		return uint64(x)
	case uint32:
		return uint64(x)
	case uint64:
		return x
	case uintptr:
		return uint64(x)
	}
	panic(fmt.Sprintf("bitsOfValue: %T", x))
}

// termOf lifts a scalar interpreter value (concrete or sym) to a term.
func (w *world) termOf(x value) *term {
	if s, ok := x.(sym); ok {
		return s.t
	}
	k := kindOfValue(x)
	if k == types.Invalid {
		panic(unsupported(fmt.Sprintf("symbolic operation on non-integer %T", x)))
	}
	return w.tt.konst(kindWidth(k), bitsOfValue(x))
}

// mk wraps a term as a value of kind k, concretising constants.
func (w *world) mk(k types.BasicKind, t *term) value {
	if t.isConst() {
		return concreteOfKind(k, t.val)
	}
	return sym{w: w, k: k, t: t}
}

func symKind(x, y value) (*world, types.BasicKind, bool) {
	if s, ok := x.(sym); ok {
		return s.w, s.k, true
	}
	if s, ok := y.(sym); ok {
		// the kind of the result of arithmetic is the kind of x; for
		// shifts x and y differ, handled by the caller.
		return s.w, s.k, true
	}
	return nil, 0, false
}

// symBinop implements binop when at least one operand is symbolic.
func symBinop(op token.Token, x, y value) value {
	var w *world
	var k types.BasicKind
	if s, ok := x.(sym); ok {
		w, k = s.w, s.k
	} else {
		w = y.(sym).w
		k = kindOfValue(x)
		if k == types.Invalid {
			panic(unsupported(fmt.Sprintf("symbolic binop %s with %T", op, x)))
		}
	}
	tt := w.tt
	a := w.termOf(x)
	width := kindWidth(k)
	signed := kindSigned(k)

	if op == token.SHL || op == token.SHR {
		// y may have any integer kind; Go panics on negative signed counts.
		var yk types.BasicKind
		if s, ok := y.(sym); ok {
			yk = s.k
		} else {
			yk = kindOfValue(y)
		}
		b := w.termOf(y)
		if kindSigned(yk) {
			neg := tt.cmp("bvslt", b, tt.konst(b.w, 0))
			if w.decide(neg) {
				panic("negative shift amount")
			}
		}
		// saturate the count to width before resizing to a's width
		big := tt.cmp("bvule", tt.konst(b.w, uint64(width)), b)
		b2 := tt.resize(b, width, false)
		b2 = tt.ite(big, tt.konst(width, uint64(width)), b2)
		if op == token.SHL {
			return w.mk(k, tt.bin("bvshl", a, b2))
		}
		if signed {
			return w.mk(k, tt.bin("bvashr", a, b2))
		}
		return w.mk(k, tt.bin("bvlshr", a, b2))
	}

	b := w.termOf(y)
	if a.w != b.w {
		panic(unsupported(fmt.Sprintf("symbolic binop %s width mismatch %d/%d", op, a.w, b.w)))
	}
	if k == types.Bool {
		switch op {
		case token.EQL:
			return w.mk(types.Bool, tt.eq(a, b))
		case token.NEQ:
			return w.mk(types.Bool, tt.not(tt.eq(a, b)))
		case token.AND, token.LAND:
			return w.mk(types.Bool, tt.and(a, b))
		case token.OR, token.LOR:
			return w.mk(types.Bool, tt.or(a, b))
		}
		panic(unsupported("symbolic bool binop " + op.String()))
	}
	switch op {
	case token.ADD:
		return w.mk(k, tt.bin("bvadd", a, b))
	case token.SUB:
		return w.mk(k, tt.bin("bvsub", a, b))
	case token.MUL:
		return w.mk(k, tt.bin("bvmul", a, b))
	case token.QUO, token.REM:
		z := tt.eq(b, tt.konst(width, 0))
		if w.decide(z) {
			panic(divideError{})
		}
		var o string
		switch {
		case op == token.QUO && signed:
			o = "bvsdiv"
		case op == token.QUO:
			o = "bvudiv"
		case signed:
			o = "bvsrem"
		default:
			o = "bvurem"
		}
		return w.mk(k, tt.bin(o, a, b))
	case token.AND:
		return w.mk(k, tt.bin("bvand", a, b))
	case token.OR:
		return w.mk(k, tt.bin("bvor", a, b))
	case token.XOR:
		return w.mk(k, tt.bin("bvxor", a, b))
	case token.AND_NOT:
		return w.mk(k, tt.bin("bvand", a, tt.bvnot(b)))
	case token.EQL:
		return w.mk(types.Bool, tt.eq(a, b))
	case token.NEQ:
		return w.mk(types.Bool, tt.not(tt.eq(a, b)))
	case token.LSS:
		if signed {
			return w.mk(types.Bool, tt.cmp("bvslt", a, b))
		}
		return w.mk(types.Bool, tt.cmp("bvult", a, b))
	case token.LEQ:
		if signed {
			return w.mk(types.Bool, tt.cmp("bvsle", a, b))
		}
		return w.mk(types.Bool, tt.cmp("bvule", a, b))
	case token.GTR:
		if signed {
			return w.mk(types.Bool, tt.cmp("bvslt", b, a))
		}
		return w.mk(types.Bool, tt.cmp("bvult", b, a))
	case token.GEQ:
		if signed {
			return w.mk(types.Bool, tt.cmp("bvsle", b, a))
		}
		return w.mk(types.Bool, tt.cmp("bvule", b, a))
	}
	panic(unsupported("symbolic binop " + op.String()))
}

type divideError struct{}

func (divideError) Error() string   { return "runtime error: integer divide by zero" }
func (divideError) RuntimeError()   {}
func (divideError) String() string  { return "runtime error: integer divide by zero" }

func symUnop(op token.Token, s sym) value {
	tt := s.w.tt
	switch op {
	case token.SUB:
		return s.w.mk(s.k, tt.bvneg(s.t))
	case token.XOR:
		return s.w.mk(s.k, tt.bvnot(s.t))
	case token.NOT:
		return s.w.mk(types.Bool, tt.not(s.t))
	}
	panic(unsupported("symbolic unop " + op.String()))
}

// symConv converts symbolic integer s to the basic kind dst.
func symConv(s sym, dst types.BasicKind) value {
	dw := kindWidth(dst)
	if dw <= 0 || s.k == types.Bool {
		// float / string / complex destinations: concretise.
		return nil
	}
	return s.w.mk(dst, s.w.tt.resize(s.t, dw, kindSigned(s.k)))
}
