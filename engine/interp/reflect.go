package interp

// Emulated "reflect" package (enough of it for go-ipld-prime's bindnode).
//
// reflect.Type is implemented by rtype (a go/types type); reflect.Value's
// underlying struct is replaced by three interface-typed slots
//
//	{ t rtype | nil ; v payload ; a *value | nil }
//
// where a, when set, is the address of the storage the Value refers to (the
// Value is then addressable and settable and v is ignored: reads go through
// a).  Every reflect function the target program uses is a native in this
// file; any other function of package reflect ends the path as UNSUPPORTED
// (naming the function).  Integer payloads may be symbolic: Int/Uint/SetInt/
// SetUint/Convert go through the engine's conv.

import (
	"fmt"
	"go/token"
	"go/types"
	"reflect"
	"strings"

	"golang.org/x/tools/go/ssa"
)

type rtype struct{ t types.Type }

type opaqueType struct {
	types.Type
	name string
}

func (t *opaqueType) String() string { return t.name }

var reflectTypesPackage = types.NewPackage("reflect", "reflect")

var sizes = types.SizesFor("gc", "amd64")

// rtypeType is the dynamic type of every reflect.Type interface value.
var rtypeType = func() *types.Named {
	obj := types.NewTypeName(token.NoPos, reflectTypesPackage, "rtype", nil)
	return types.NewNamed(obj, &opaqueType{nil, "rtype"}, nil)
}()

func mkType(t types.Type) value {
	if t == nil {
		return iface{}
	}
	return iface{rtypeType, rtype{t}}
}

func typeArg(v value) types.Type {
	it, ok := v.(iface)
	if !ok || it.t == nil {
		panic(targetPanic{iface{t: types.Typ[types.String], v: "reflect: nil Type"}})
	}
	return it.v.(rtype).t
}

func mkRV(t types.Type, v value, a *value) value {
	var av value = iface{}
	if a != nil {
		av = a
	}
	return structure{rtype{t}, v, av}
}

func invalidRV() value { return structure{iface{}, iface{}, iface{}} }

func rvType(v value) types.Type {
	if rt, ok := v.(structure)[0].(rtype); ok {
		return rt.t
	}
	return nil
}

func rvAddr(v value) *value {
	if a, ok := v.(structure)[2].(*value); ok {
		return a
	}
	return nil
}

// rvCur returns the payload (not copied).
func rvCur(v value) value {
	if a := rvAddr(v); a != nil {
		return *a
	}
	return v.(structure)[1]
}

func rvMust(v value, what string) types.Type {
	t := rvType(v)
	if t == nil {
		panic(targetPanic{iface{t: types.Typ[types.String], v: "reflect: call of reflect.Value." + what + " on zero Value"}})
	}
	return t
}

func reflectPanic(format string, args ...any) {
	panic(targetPanic{iface{t: types.Typ[types.String], v: "reflect: " + fmt.Sprintf(format, args...)}})
}

// copyOf returns an unaliased copy of a payload of type t.
func copyOf(t types.Type, v value) value {
	tmp := v
	return load(t, &tmp)
}

func reflectKind(t types.Type) reflect.Kind {
	switch t := t.(type) {
	case *types.Named, *types.Alias:
		return reflectKind(t.Underlying())
	case *types.Basic:
		switch t.Kind() {
		case types.Bool, types.UntypedBool:
			return reflect.Bool
		case types.Int, types.UntypedInt:
			return reflect.Int
		case types.Int8:
			return reflect.Int8
		case types.Int16:
			return reflect.Int16
		case types.Int32, types.UntypedRune:
			return reflect.Int32
		case types.Int64:
			return reflect.Int64
		case types.Uint:
			return reflect.Uint
		case types.Uint8:
			return reflect.Uint8
		case types.Uint16:
			return reflect.Uint16
		case types.Uint32:
			return reflect.Uint32
		case types.Uint64:
			return reflect.Uint64
		case types.Uintptr:
			return reflect.Uintptr
		case types.Float32:
			return reflect.Float32
		case types.Float64, types.UntypedFloat:
			return reflect.Float64
		case types.Complex64:
			return reflect.Complex64
		case types.Complex128:
			return reflect.Complex128
		case types.String, types.UntypedString:
			return reflect.String
		case types.UnsafePointer:
			return reflect.UnsafePointer
		}
	case *types.Array:
		return reflect.Array
	case *types.Chan:
		return reflect.Chan
	case *types.Signature:
		return reflect.Func
	case *types.Interface:
		return reflect.Interface
	case *types.Map:
		return reflect.Map
	case *types.Pointer:
		return reflect.Pointer
	case *types.Slice:
		return reflect.Slice
	case *types.Struct:
		return reflect.Struct
	}
	panic(fmt.Sprint("reflectKind: unexpected type: ", t))
}

func typeString(t types.Type) string {
	return types.TypeString(t, func(p *types.Package) string { return p.Name() })
}

func structFieldValue(st *types.Struct, i int) value {
	f := st.Field(i)
	pkgPath := ""
	if !f.Exported() && f.Pkg() != nil {
		pkgPath = f.Pkg().Path()
	}
	return structure{
		f.Name(),
		pkgPath,
		mkType(f.Type()),
		st.Tag(i),
		uintptr(0),
		[]value{i},
		f.Anonymous(),
	}
}

// elemAddrs: addressable view of element i of a slice or array payload
func newMethod(pkg *ssa.Package, recvType types.Type, name string) *ssa.Function {
	sig := types.NewSignatureType(types.NewParam(token.NoPos, nil, "recv", recvType), nil, nil, nil, nil, false)
	fn := pkg.Prog.NewFunction(name, sig, "fake reflect method")
	fn.Pkg = pkg
	return fn
}

var rtypeMethodNames = []string{
	"Bits", "Elem", "Field", "FieldByName", "Key", "Kind", "Len", "Name", "PkgPath", "NumField", "NumMethod",
	"Size", "String", "AssignableTo", "ConvertibleTo", "Implements", "Comparable", "In", "Out", "NumIn", "NumOut",
}

// initReflect installs the fake reflect.Value shape and the rtype method table.
func (p *Program) initReflect() {
	p.reflectPackage = &ssa.Package{Prog: p.prog, Pkg: reflectTypesPackage, Members: make(map[string]ssa.Member)}
	if r := p.prog.ImportedPackage("reflect"); r != nil {
		rV := r.Pkg.Scope().Lookup("Value").Type().(*types.Named)
		tEface := types.NewInterfaceType(nil, nil).Complete()
		rV.SetUnderlying(types.NewStruct([]*types.Var{
			types.NewField(token.NoPos, r.Pkg, "t", tEface, false),
			types.NewField(token.NoPos, r.Pkg, "v", tEface, false),
			types.NewField(token.NoPos, r.Pkg, "a", tEface, false),
		}, nil))
	}
	p.rtypeMethods = make(map[string]*ssa.Function)
	for _, n := range rtypeMethodNames {
		p.rtypeMethods[n] = newMethod(p.reflectPackage, rtypeType, n)
	}
}

func assignable(from, to types.Type) bool {
	if types.AssignableTo(from, to) {
		return true
	}
	return false
}

func convertValue(dst, src types.Type, x value) value {
	if types.Identical(dst, src) {
		return x
	}
	if _, ok := dst.Underlying().(*types.Interface); ok {
		if _, isI := src.Underlying().(*types.Interface); isI {
			return x
		}
		return iface{src, x}
	}
	return conv(dst, src, x)
}

func init() {
	rt := func(name string, fn externalFn) { reg("(reflect.rtype)."+name, fn) }
	rv := func(name string, fn externalFn) { reg("(reflect.Value)."+name, fn) }
	self := func(a []value) types.Type { return a[0].(rtype).t }

	// ---- reflect.Type ----
	rt("Kind", func(fr *frame, a []value) value { return uint(reflectKind(self(a))) })
	rt("String", func(fr *frame, a []value) value { return typeString(self(a)) })
	rt("Name", func(fr *frame, a []value) value {
		switch t := self(a).(type) {
		case *types.Named:
			return t.Obj().Name()
		case *types.Alias:
			return t.Obj().Name()
		case *types.Basic:
			return t.Name()
		}
		return ""
	})
	rt("PkgPath", func(fr *frame, a []value) value {
		if t, ok := self(a).(*types.Named); ok && t.Obj().Pkg() != nil {
			return t.Obj().Pkg().Path()
		}
		return ""
	})
	rt("Elem", func(fr *frame, a []value) value {
		switch t := self(a).Underlying().(type) {
		case *types.Pointer:
			return mkType(t.Elem())
		case *types.Slice:
			return mkType(t.Elem())
		case *types.Array:
			return mkType(t.Elem())
		case *types.Map:
			return mkType(t.Elem())
		case *types.Chan:
			return mkType(t.Elem())
		}
		reflectPanic("Elem of invalid type %s", typeString(self(a)))
		return nil
	})
	rt("Key", func(fr *frame, a []value) value {
		if t, ok := self(a).Underlying().(*types.Map); ok {
			return mkType(t.Key())
		}
		reflectPanic("Key of non-map type %s", typeString(self(a)))
		return nil
	})
	rt("Len", func(fr *frame, a []value) value {
		if t, ok := self(a).Underlying().(*types.Array); ok {
			return int(t.Len())
		}
		reflectPanic("Len of non-array type %s", typeString(self(a)))
		return nil
	})
	rt("NumField", func(fr *frame, a []value) value {
		st, ok := self(a).Underlying().(*types.Struct)
		if !ok {
			reflectPanic("NumField of non-struct type %s", typeString(self(a)))
		}
		return st.NumFields()
	})
	rt("Field", func(fr *frame, a []value) value {
		st, ok := self(a).Underlying().(*types.Struct)
		if !ok {
			reflectPanic("Field of non-struct type %s", typeString(self(a)))
		}
		i := concrete(a[1]).(int)
		if i < 0 || i >= st.NumFields() {
			reflectPanic("Field index out of bounds")
		}
		return structFieldValue(st, i)
	})
	rt("FieldByName", func(fr *frame, a []value) value {
		st, ok := self(a).Underlying().(*types.Struct)
		if !ok {
			reflectPanic("FieldByName of non-struct type %s", typeString(self(a)))
		}
		name := a[1].(string)
		for i := 0; i < st.NumFields(); i++ {
			if st.Field(i).Name() == name {
				return tuple{structFieldValue(st, i), true}
			}
		}
		var zeroSF value = structure{"", "", iface{}, "", uintptr(0), []value(nil), false}
		return tuple{zeroSF, false}
	})
	rt("NumMethod", func(fr *frame, a []value) value {
		if it, ok := self(a).Underlying().(*types.Interface); ok {
			return it.NumMethods()
		}
		ms := fr.w.p.prog.MethodSets.MethodSet(self(a))
		n := 0
		for i := 0; i < ms.Len(); i++ {
			if ms.At(i).Obj().Exported() {
				n++
			}
		}
		return n
	})
	rt("Size", func(fr *frame, a []value) value { return uintptr(sizes.Sizeof(self(a))) })
	rt("Bits", func(fr *frame, a []value) value { return int(sizes.Sizeof(self(a))) * 8 })
	rt("AssignableTo", func(fr *frame, a []value) value { return assignable(self(a), typeArg(a[1])) })
	rt("ConvertibleTo", func(fr *frame, a []value) value { return types.ConvertibleTo(self(a), typeArg(a[1])) })
	rt("Implements", func(fr *frame, a []value) value {
		it, ok := typeArg(a[1]).Underlying().(*types.Interface)
		if !ok {
			reflectPanic("non-interface type passed to Type.Implements")
		}
		return types.Implements(self(a), it)
	})
	rt("Comparable", func(fr *frame, a []value) value { return types.Comparable(self(a)) })
	rt("NumIn", func(fr *frame, a []value) value { return self(a).Underlying().(*types.Signature).Params().Len() })
	rt("NumOut", func(fr *frame, a []value) value { return self(a).Underlying().(*types.Signature).Results().Len() })
	rt("In", func(fr *frame, a []value) value {
		return mkType(self(a).Underlying().(*types.Signature).Params().At(concrete(a[1]).(int)).Type())
	})
	rt("Out", func(fr *frame, a []value) value {
		return mkType(self(a).Underlying().(*types.Signature).Results().At(concrete(a[1]).(int)).Type())
	})

	// ---- package functions ----
	reg("reflect.TypeOf", func(fr *frame, a []value) value { return mkType(a[0].(iface).t) })
	reg("reflect.ValueOf", func(fr *frame, a []value) value {
		it := a[0].(iface)
		if it.t == nil {
			return invalidRV()
		}
		return mkRV(it.t, it.v, nil)
	})
	reg("reflect.New", func(fr *frame, a []value) value {
		t := typeArg(a[0])
		cell := zero(t)
		return mkRV(types.NewPointer(t), &cell, nil)
	})
	reg("reflect.Zero", func(fr *frame, a []value) value {
		t := typeArg(a[0])
		return mkRV(t, zero(t), nil)
	})
	ptrTo := func(fr *frame, a []value) value { return mkType(types.NewPointer(typeArg(a[0]))) }
	reg("reflect.PointerTo", ptrTo)
	reg("reflect.PtrTo", ptrTo)
	reg("reflect.SliceOf", func(fr *frame, a []value) value { return mkType(types.NewSlice(typeArg(a[0]))) })
	reg("reflect.MapOf", func(fr *frame, a []value) value { return mkType(types.NewMap(typeArg(a[0]), typeArg(a[1]))) })
	reg("reflect.MakeMap", func(fr *frame, a []value) value {
		t := typeArg(a[0])
		mt, ok := t.Underlying().(*types.Map)
		if !ok {
			reflectPanic("MakeMap of non-map type")
		}
		return mkRV(t, makeMap(mt.Key()), nil)
	})
	reg("reflect.MakeMapWithSize", func(fr *frame, a []value) value {
		t := typeArg(a[0])
		return mkRV(t, makeMap(t.Underlying().(*types.Map).Key()), nil)
	})
	reg("reflect.MakeSlice", func(fr *frame, a []value) value {
		t := typeArg(a[0])
		st := t.Underlying().(*types.Slice)
		n, c := concrete(a[1]).(int), concrete(a[2]).(int)
		s := make([]value, n, c)
		for i := range s {
			s[i] = zero(st.Elem())
		}
		return mkRV(t, s, nil)
	})
	reg("reflect.Append", func(fr *frame, a []value) value {
		t := rvMust(a[0], "Append")
		st, ok := t.Underlying().(*types.Slice)
		if !ok {
			reflectPanic("Append to non-slice")
		}
		old, _ := rvCur(a[0]).([]value)
		out := make([]value, len(old), len(old)+len(a[1].([]value)))
		copy(out, old)
		// (a fresh backing array: element cells of the old slice stay valid
		// for their holders, as after a reallocating append)
		for _, x := range a[1].([]value) {
			xt := rvMust(x, "Append")
			out = append(out, convertValue(st.Elem(), xt, copyOf(xt, rvCur(x))))
		}
		return mkRV(t, out, nil)
	})
	reg("reflect.Indirect", func(fr *frame, a []value) value {
		t := rvType(a[0])
		if t == nil {
			return a[0]
		}
		if pt, ok := t.Underlying().(*types.Pointer); ok {
			p, _ := rvCur(a[0]).(*value)
			if p == nil {
				return invalidRV()
			}
			return mkRV(pt.Elem(), nil, p)
		}
		return a[0]
	})
	reg("reflect.DeepEqual", func(fr *frame, a []value) value {
		x, y := a[0].(iface), a[1].(iface)
		if x.t == nil || y.t == nil {
			return x.t == nil && y.t == nil
		}
		if !types.Identical(x.t, y.t) {
			return false
		}
		return deepEqual(x.t, x.v, y.v)
	})

	// ---- reflect.Value ----
	rv("IsValid", func(fr *frame, a []value) value { return rvType(a[0]) != nil })
	rv("Kind", func(fr *frame, a []value) value {
		t := rvType(a[0])
		if t == nil {
			return uint(reflect.Invalid)
		}
		return uint(reflectKind(t))
	})
	rv("Type", func(fr *frame, a []value) value { return mkType(rvMust(a[0], "Type")) })
	rv("CanAddr", func(fr *frame, a []value) value { return rvAddr(a[0]) != nil })
	rv("CanSet", func(fr *frame, a []value) value { return rvAddr(a[0]) != nil })
	rv("CanInterface", func(fr *frame, a []value) value { return rvType(a[0]) != nil })
	rv("Addr", func(fr *frame, a []value) value {
		t := rvMust(a[0], "Addr")
		p := rvAddr(a[0])
		if p == nil {
			reflectPanic("reflect.Value.Addr of unaddressable value")
		}
		return mkRV(types.NewPointer(t), p, nil)
	})
	rv("Elem", func(fr *frame, a []value) value {
		t := rvMust(a[0], "Elem")
		switch ut := t.Underlying().(type) {
		case *types.Pointer:
			p, _ := rvCur(a[0]).(*value)
			if p == nil {
				return invalidRV()
			}
			return mkRV(ut.Elem(), nil, p)
		case *types.Interface:
			x := rvCur(a[0]).(iface)
			if x.t == nil {
				return invalidRV()
			}
			return mkRV(x.t, x.v, nil)
		}
		reflectPanic("call of reflect.Value.Elem on %s Value", reflectKind(t))
		return nil
	})
	field := func(v value, i int) value {
		t := rvMust(v, "Field")
		st, ok := t.Underlying().(*types.Struct)
		if !ok {
			reflectPanic("call of reflect.Value.Field on %s Value", reflectKind(t))
		}
		if i < 0 || i >= st.NumFields() {
			reflectPanic("Field index out of range")
		}
		ft := st.Field(i).Type()
		if p := rvAddr(v); p != nil {
			return mkRV(ft, nil, &(*p).(structure)[i])
		}
		return mkRV(ft, rvCur(v).(structure)[i], nil)
	}
	rv("Field", func(fr *frame, a []value) value { return field(a[0], concrete(a[1]).(int)) })
	rv("FieldByIndex", func(fr *frame, a []value) value {
		v := a[0]
		for _, ix := range a[1].([]value) {
			v = field(v, concrete(ix).(int))
		}
		return v
	})
	rv("FieldByName", func(fr *frame, a []value) value {
		t := rvMust(a[0], "FieldByName")
		st, ok := t.Underlying().(*types.Struct)
		if !ok {
			reflectPanic("call of reflect.Value.FieldByName on %s Value", reflectKind(t))
		}
		name := a[1].(string)
		for i := 0; i < st.NumFields(); i++ {
			if st.Field(i).Name() == name {
				return field(a[0], i)
			}
		}
		return invalidRV()
	})
	rv("NumField", func(fr *frame, a []value) value {
		return rvMust(a[0], "NumField").Underlying().(*types.Struct).NumFields()
	})
	rv("Index", func(fr *frame, a []value) value {
		t := rvMust(a[0], "Index")
		i := concrete(a[1]).(int)
		switch ut := t.Underlying().(type) {
		case *types.Slice:
			s := rvCur(a[0]).([]value)
			if i < 0 || i >= len(s) {
				reflectPanic("slice index out of range")
			}
			return mkRV(ut.Elem(), nil, &s[i])
		case *types.Array:
			if p := rvAddr(a[0]); p != nil {
				arr := (*p).(array)
				return mkRV(ut.Elem(), nil, &arr[i])
			}
			return mkRV(ut.Elem(), rvCur(a[0]).(array)[i], nil)
		case *types.Basic:
			if ut.Info()&types.IsString != 0 {
				return mkRV(types.Typ[types.Uint8], rvCur(a[0]).(string)[i], nil)
			}
		}
		reflectPanic("call of reflect.Value.Index on %s Value", reflectKind(t))
		return nil
	})
	rv("Len", func(fr *frame, a []value) value {
		rvMust(a[0], "Len")
		switch v := rvCur(a[0]).(type) {
		case string:
			return len(v)
		case array:
			return len(v)
		case []value:
			return len(v)
		case *omap:
			return v.len()
		case symBytes:
			return v.n
		}
		reflectPanic("call of reflect.Value.Len on %s Value", reflectKind(rvType(a[0])))
		return nil
	})
	rv("Cap", func(fr *frame, a []value) value {
		switch v := rvCur(a[0]).(type) {
		case []value:
			return cap(v)
		case array:
			return len(v)
		}
		reflectPanic("call of reflect.Value.Cap on %s Value", reflectKind(rvType(a[0])))
		return nil
	})
	rv("IsNil", func(fr *frame, a []value) value {
		rvMust(a[0], "IsNil")
		switch x := rvCur(a[0]).(type) {
		case *value:
			return x == nil
		case *chanObj:
			return x == nil
		case *omap:
			return x == nil
		case iface:
			return x.t == nil
		case []value:
			return x == nil
		case *ssa.Function:
			return x == nil
		case *ssa.Builtin:
			return x == nil
		case *closure:
			return x == nil
		}
		reflectPanic("call of reflect.Value.IsNil on %s Value", reflectKind(rvType(a[0])))
		return nil
	})
	rv("IsZero", func(fr *frame, a []value) value {
		t := rvMust(a[0], "IsZero")
		return deepEqual(t, rvCur(a[0]), zero(t))
	})
	rv("Interface", func(fr *frame, a []value) value {
		t := rvMust(a[0], "Interface")
		if _, ok := t.Underlying().(*types.Interface); ok {
			return rvCur(a[0]).(iface)
		}
		return iface{t, copyOf(t, rvCur(a[0]))}
	})
	rv("Int", func(fr *frame, a []value) value {
		t := rvMust(a[0], "Int")
		switch reflectKind(t) {
		case reflect.Int, reflect.Int8, reflect.Int16, reflect.Int32, reflect.Int64:
			return conv(types.Typ[types.Int64], t, rvCur(a[0]))
		}
		reflectPanic("call of reflect.Value.Int on %s Value", reflectKind(t))
		return nil
	})
	rv("Uint", func(fr *frame, a []value) value {
		t := rvMust(a[0], "Uint")
		switch reflectKind(t) {
		case reflect.Uint, reflect.Uint8, reflect.Uint16, reflect.Uint32, reflect.Uint64, reflect.Uintptr:
			return conv(types.Typ[types.Uint64], t, rvCur(a[0]))
		}
		reflectPanic("call of reflect.Value.Uint on %s Value", reflectKind(t))
		return nil
	})
	rv("Float", func(fr *frame, a []value) value {
		t := rvMust(a[0], "Float")
		switch reflectKind(t) {
		case reflect.Float32, reflect.Float64:
			return conv(types.Typ[types.Float64], t, rvCur(a[0]))
		}
		reflectPanic("call of reflect.Value.Float on %s Value", reflectKind(t))
		return nil
	})
	rv("Bool", func(fr *frame, a []value) value {
		t := rvMust(a[0], "Bool")
		if reflectKind(t) != reflect.Bool {
			reflectPanic("call of reflect.Value.Bool on %s Value", reflectKind(t))
		}
		return rvCur(a[0])
	})
	rv("String", func(fr *frame, a []value) value {
		t := rvType(a[0])
		if t == nil {
			return "<invalid Value>"
		}
		if reflectKind(t) == reflect.String {
			return rvCur(a[0])
		}
		return "<" + typeString(t) + " Value>"
	})
	rv("Bytes", func(fr *frame, a []value) value {
		t := rvMust(a[0], "Bytes")
		if st, ok := t.Underlying().(*types.Slice); ok && reflectKind(st.Elem()) == reflect.Uint8 {
			return rvCur(a[0])
		}
		reflectPanic("call of reflect.Value.Bytes on %s Value", reflectKind(t))
		return nil
	})
	set := func(v value, xt types.Type, x value, what string) {
		t := rvMust(v, what)
		p := rvAddr(v)
		if p == nil {
			reflectPanic("reflect.Value.%s using unaddressable value", what)
		}
		store(t, p, convertValue(t, xt, x))
	}
	rv("Set", func(fr *frame, a []value) value {
		xt := rvMust(a[1], "Set")
		t := rvMust(a[0], "Set")
		if !assignable(xt, t) {
			reflectPanic("reflect.Set: value of type %s is not assignable to type %s", typeString(xt), typeString(t))
		}
		set(a[0], xt, copyOf(xt, rvCur(a[1])), "Set")
		return nil
	})
	rv("SetInt", func(fr *frame, a []value) value {
		switch reflectKind(rvMust(a[0], "SetInt")) {
		case reflect.Int, reflect.Int8, reflect.Int16, reflect.Int32, reflect.Int64:
		default:
			reflectPanic("call of reflect.Value.SetInt on %s Value", reflectKind(rvType(a[0])))
		}
		set(a[0], types.Typ[types.Int64], a[1], "SetInt")
		return nil
	})
	rv("SetUint", func(fr *frame, a []value) value {
		switch reflectKind(rvMust(a[0], "SetUint")) {
		case reflect.Uint, reflect.Uint8, reflect.Uint16, reflect.Uint32, reflect.Uint64, reflect.Uintptr:
		default:
			reflectPanic("call of reflect.Value.SetUint on %s Value", reflectKind(rvType(a[0])))
		}
		set(a[0], types.Typ[types.Uint64], a[1], "SetUint")
		return nil
	})
	rv("SetFloat", func(fr *frame, a []value) value {
		set(a[0], types.Typ[types.Float64], a[1], "SetFloat")
		return nil
	})
	rv("SetBool", func(fr *frame, a []value) value {
		if reflectKind(rvMust(a[0], "SetBool")) != reflect.Bool {
			reflectPanic("call of reflect.Value.SetBool on %s Value", reflectKind(rvType(a[0])))
		}
		set(a[0], rvType(a[0]), a[1], "SetBool")
		return nil
	})
	rv("SetString", func(fr *frame, a []value) value {
		if reflectKind(rvMust(a[0], "SetString")) != reflect.String {
			reflectPanic("call of reflect.Value.SetString on %s Value", reflectKind(rvType(a[0])))
		}
		set(a[0], rvType(a[0]), a[1], "SetString")
		return nil
	})
	rv("SetBytes", func(fr *frame, a []value) value {
		t := rvMust(a[0], "SetBytes")
		if st, ok := t.Underlying().(*types.Slice); !ok || reflectKind(st.Elem()) != reflect.Uint8 {
			reflectPanic("call of reflect.Value.SetBytes on %s Value", reflectKind(t))
		}
		set(a[0], t, a[1], "SetBytes")
		return nil
	})
	rv("SetLen", func(fr *frame, a []value) value {
		p := rvAddr(a[0])
		s := (*p).([]value)
		*p = s[:concrete(a[1]).(int)]
		return nil
	})
	rv("MapIndex", func(fr *frame, a []value) value {
		t := rvMust(a[0], "MapIndex")
		mt, ok := t.Underlying().(*types.Map)
		if !ok {
			reflectPanic("call of reflect.Value.MapIndex on %s Value", reflectKind(t))
		}
		m, _ := rvCur(a[0]).(*omap)
		kt := rvMust(a[1], "MapIndex")
		k := convertValue(mt.Key(), kt, rvCur(a[1]))
		if v, ok := m.lookup(k); ok {
			return mkRV(mt.Elem(), copyOf(mt.Elem(), v), nil)
		}
		return invalidRV()
	})
	rv("SetMapIndex", func(fr *frame, a []value) value {
		t := rvMust(a[0], "SetMapIndex")
		mt, ok := t.Underlying().(*types.Map)
		if !ok {
			reflectPanic("call of reflect.Value.SetMapIndex on %s Value", reflectKind(t))
		}
		m, _ := rvCur(a[0]).(*omap)
		if m == nil {
			reflectPanic("assignment to entry in nil map")
		}
		kt := rvMust(a[1], "SetMapIndex")
		k := convertValue(mt.Key(), kt, copyOf(kt, rvCur(a[1])))
		if rvType(a[2]) == nil {
			m.delete(k)
			return nil
		}
		et := rvType(a[2])
		m.insert(k, convertValue(mt.Elem(), et, copyOf(et, rvCur(a[2]))))
		return nil
	})
	rv("MapKeys", func(fr *frame, a []value) value {
		t := rvMust(a[0], "MapKeys")
		mt := t.Underlying().(*types.Map)
		m, _ := rvCur(a[0]).(*omap)
		keys := []value{}
		if m != nil {
			for _, e := range m.ents {
				if !e.dead {
					keys = append(keys, mkRV(mt.Key(), copyOf(mt.Key(), e.key), nil))
				}
			}
		}
		return keys
	})
	rv("Convert", func(fr *frame, a []value) value {
		t := rvMust(a[0], "Convert")
		dst := typeArg(a[1])
		if !types.ConvertibleTo(t, dst) {
			reflectPanic("reflect.Value.Convert: value of type %s cannot be converted to type %s", typeString(t), typeString(dst))
		}
		return mkRV(dst, convertValue(dst, t, copyOf(t, rvCur(a[0]))), nil)
	})
	rv("Pointer", func(fr *frame, a []value) value {
		// identity only: not a real address
		switch v := rvCur(a[0]).(type) {
		case *value:
			if v == nil {
				return uintptr(0)
			}
			return uintptr(1)
		}
		return uintptr(1)
	})
	rv("NumMethod", func(fr *frame, a []value) value {
		return fr.w.p.prog.MethodSets.MethodSet(rvMust(a[0], "NumMethod")).Len()
	})
	rv("Slice", func(fr *frame, a []value) value {
		t := rvMust(a[0], "Slice")
		lo, hi := concrete(a[1]).(int), concrete(a[2]).(int)
		switch v := rvCur(a[0]).(type) {
		case []value:
			return mkRV(t, v[lo:hi], nil)
		case string:
			return mkRV(t, v[lo:hi], nil)
		}
		reflectPanic("call of reflect.Value.Slice on %s Value", reflectKind(t))
		return nil
	})
	// Kind.String (the table lives in reflect's uninitialised globals)
	reg("(reflect.Kind).String", func(fr *frame, a []value) value {
		return reflect.Kind(concrete(a[0]).(uint)).String()
	})
	reg("(reflect.StructTag).Get", func(fr *frame, a []value) value {
		return reflect.StructTag(a[0].(string)).Get(a[1].(string))
	})
	reg("(reflect.StructTag).Lookup", func(fr *frame, a []value) value {
		v, ok := reflect.StructTag(a[0].(string)).Lookup(a[1].(string))
		return tuple{v, ok}
	})
	reg("(reflect.StructField).IsExported", func(fr *frame, a []value) value {
		return a[0].(structure)[1].(string) == ""
	})
}

// deepEqual: structural equality of two payloads of type t (pointers followed).
func deepEqual(t types.Type, x, y value) bool {
	switch ut := t.Underlying().(type) {
	case *types.Pointer:
		px, _ := x.(*value)
		py, _ := y.(*value)
		if px == nil || py == nil {
			return px == py
		}
		if px == py {
			return true
		}
		return deepEqual(ut.Elem(), *px, *py)
	case *types.Struct:
		sx, sy := x.(structure), y.(structure)
		for i := range sx {
			if !deepEqual(ut.Field(i).Type(), sx[i], sy[i]) {
				return false
			}
		}
		return true
	case *types.Array:
		ax, ay := x.(array), y.(array)
		for i := range ax {
			if !deepEqual(ut.Elem(), ax[i], ay[i]) {
				return false
			}
		}
		return true
	case *types.Slice:
		sx, _ := x.([]value)
		sy, _ := y.([]value)
		if (sx == nil) != (sy == nil) || len(sx) != len(sy) {
			return false
		}
		for i := range sx {
			if !deepEqual(ut.Elem(), sx[i], sy[i]) {
				return false
			}
		}
		return true
	case *types.Map:
		mx, _ := x.(*omap)
		my, _ := y.(*omap)
		if (mx == nil) != (my == nil) || mx.len() != my.len() {
			return false
		}
		if mx == nil {
			return true
		}
		for _, e := range mx.ents {
			if e.dead {
				continue
			}
			v, ok := my.lookup(e.key)
			if !ok || !deepEqual(ut.Elem(), e.val, v) {
				return false
			}
		}
		return true
	case *types.Interface:
		ix, iy := x.(iface), y.(iface)
		if ix.t == nil || iy.t == nil {
			return ix.t == nil && iy.t == nil
		}
		if !types.Identical(ix.t, iy.t) {
			return false
		}
		return deepEqual(ix.t, ix.v, iy.v)
	case *types.Signature:
		return eqnil(t, x, zero(t)) && eqnil(t, y, zero(t))
	}
	return equals(t, x, y)
}

func isReflectPkgFn(name string) bool {
	return strings.HasPrefix(name, "reflect.") || strings.HasPrefix(name, "(reflect.") || strings.HasPrefix(name, "(*reflect.")
}
