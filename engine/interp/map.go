package interp

// Insertion-ordered association maps.  All Go maps of the target program are
// represented by *omap; iteration order is insertion order, which makes
// replay deterministic.  Keys may contain symbolic parts: comparisons then
// fork through the solver (see equals).

import (
	"go/types"
)

type oent struct {
	key  value
	val  value
	dead bool
}

type omap struct {
	keyType types.Type
	ents    []oent
	live    int
	idx     map[value]int // fast index for concrete basic keys
	nsym    int           // number of live entries whose key has symbolic parts
	noIdx   bool
}

func makeMap(kt types.Type) value {
	return &omap{keyType: kt}
}

// indexable reports whether k is a concrete value usable as a native Go map key
// with Go == coinciding with target equality.
func indexable(k value) bool {
	switch k.(type) {
	case bool, int, int8, int16, int32, int64, uint, uint8, uint16, uint32, uint64, uintptr, string, float32, float64, *value, *chanObj:
		return true
	}
	return false
}

func hasSym(v value) bool {
	switch v := v.(type) {
	case sym:
		return true
	case structure:
		for _, x := range v {
			if hasSym(x) {
				return true
			}
		}
	case array:
		for _, x := range v {
			if hasSym(x) {
				return true
			}
		}
	case iface:
		return hasSym(v.v)
	}
	return false
}

// find returns the index of the entry equal to k, or -1.
func (m *omap) find(k value) int {
	if m == nil {
		return -1
	}
	if m.idx != nil && m.nsym == 0 && indexable(k) {
		if i, ok := m.idx[k]; ok {
			return i
		}
		return -1
	}
	ksym := hasSym(k)
	for i := range m.ents {
		e := &m.ents[i]
		if e.dead {
			continue
		}
		if !ksym && m.nsym == 0 {
			if concreteEquals(m.keyType, k, e.key) {
				return i
			}
			continue
		}
		if equals(m.keyType, k, e.key) {
			return i
		}
	}
	return -1
}

func (m *omap) lookup(k value) (value, bool) {
	i := m.find(k)
	if i < 0 {
		return nil, false
	}
	return m.ents[i].val, true
}

func (m *omap) insert(k, v value) {
	if i := m.find(k); i >= 0 {
		m.ents[i].val = v
		return
	}
	m.ents = append(m.ents, oent{key: k, val: v})
	m.live++
	if hasSym(k) {
		m.nsym++
	}
	if indexable(k) && !m.noIdx {
		if m.idx == nil {
			m.idx = make(map[value]int)
		}
		m.idx[k] = len(m.ents) - 1
	} else {
		m.noIdx = true
		m.idx = nil
	}
}

func (m *omap) delete(k value) {
	if m == nil {
		return
	}
	i := m.find(k)
	if i < 0 {
		return
	}
	if hasSym(m.ents[i].key) {
		m.nsym--
	}
	if m.idx != nil {
		delete(m.idx, m.ents[i].key)
	}
	m.ents[i].dead = true
	m.ents[i].key = nil
	m.ents[i].val = nil
	m.live--
	if m.live == 0 {
		m.ents = m.ents[:0]
		m.idx = nil
		m.noIdx = false
		m.nsym = 0
	}
}

func (m *omap) clear() {
	if m == nil {
		return
	}
	m.ents = nil
	m.live = 0
	m.idx = nil
	m.nsym = 0
	m.noIdx = false
}

func (m *omap) len() int {
	if m == nil {
		return 0
	}
	return m.live
}

type omapIter struct {
	m   *omap
	pos int
}

func (it *omapIter) next() tuple {
	if it.m != nil {
		for it.pos < len(it.m.ents) {
			e := &it.m.ents[it.pos]
			it.pos++
			if !e.dead {
				return tuple{true, e.key, e.val}
			}
		}
	}
	return tuple{false, nil, nil}
}
