// Copyright 2013 The Go Authors. All rights reserved.
// Use of this source code is governed by a BSD-style
// license that can be found in the LICENSE file.

// Package interp is gosym's symbolic executor for Go SSA.  It is a fork of
// golang.org/x/tools/go/ssa/interp (v0.50.0): the concrete interpreter is
// kept for the long tail of Go semantics; integers and booleans may be
// symbolic (SMT terms), branches on symbolic conditions are decided by an SMT
// solver, goroutines are coroutines under an explicit scheduler, maps are
// insertion ordered, and every path is explored by replay from a decision
// prefix.
package interp

import (
	"fmt"
	"go/token"
	"go/types"
	"runtime"
	"slices"
	"strings"

	"golang.org/x/tools/go/ssa"
)

type continuation int

const (
	kNext continuation = iota
	kReturn
	kJump
)

func mustDeref(t types.Type) types.Type {
	if p, ok := t.Underlying().(*types.Pointer); ok {
		return p.Elem()
	}
	if p, ok := types.Unalias(t).(*types.Pointer); ok {
		return p.Elem()
	}
	panic(fmt.Sprintf("mustDeref: %v is not a pointer", t))
}

type deferred struct {
	fn    value
	args  []value
	instr *ssa.Defer
	tail  *deferred
}

type frame struct {
	w                *world
	caller           *frame
	fn               *ssa.Function
	block, prevBlock *ssa.BasicBlock
	env              map[ssa.Value]value // dynamic values of SSA variables
	locals           []value
	defers           *deferred
	result           value
	panicking        bool
	panic            any
	phitemps         []value // temporaries for parallel phi assignment
}

func (fr *frame) get(key ssa.Value) value {
	switch key := key.(type) {
	case nil:
		// Hack; simplifies handling of optional attributes
		// such as ssa.Slice.{Low,High}.
		return nil
	case *ssa.Function, *ssa.Builtin:
		return key
	case *ssa.Const:
		return constValue(key)
	case *ssa.Global:
		return fr.w.globalAddr(key, fr.fn)
	}
	if r, ok := fr.env[key]; ok {
		return r
	}
	panic(pathEnd{oEngine, fmt.Sprintf("get: no value for %T: %v in %s", key, key.Name(), fr.fn)})
}

// isEngineAbort reports whether a recovered panic value must propagate
// without running target defers.
func isEngineAbort(p any) bool {
	switch p.(type) {
	case pathEnd:
		return true
	case *runtime.TypeAssertionError:
		return true
	}
	return false
}

// runDefer runs a deferred call d.
// It always returns normally, but may set or clear fr.panic.
func (fr *frame) runDefer(d *deferred) {
	var ok bool
	defer func() {
		if !ok {
			// Deferred call created a new state of panic.
			r := recover()
			if isEngineAbort(r) {
				panic(r)
			}
			fr.panicking = true
			fr.panic = r
		}
	}()
	call(fr.w, fr, d.instr.Pos(), d.fn, d.args)
	ok = true
}

// runDefers executes fr's deferred function calls in LIFO order.
func (fr *frame) runDefers() {
	for d := fr.defers; d != nil; d = d.tail {
		fr.runDefer(d)
	}
	fr.defers = nil
	if fr.panicking {
		panic(fr.panic) // new panic, or still panicking
	}
}

// lookupMethod returns the method of type typ.
func lookupMethod(w *world, typ types.Type, meth *types.Func) *ssa.Function {
	if typ == rtypeType {
		return w.p.rtypeMethods[meth.Name()]
	}
	return w.p.prog.LookupMethod(typ, meth.Pkg(), meth.Name())
}

// visitInstr interprets a single ssa.Instruction within the activation
// record frame.  It returns a continuation value indicating where to
// read the next instruction from.
func visitInstr(fr *frame, instr ssa.Instruction) continuation {
	w := fr.w
	w.steps++
	if w.steps > w.cfg.MaxSteps {
		panic(pathEnd{oUnwind, fmt.Sprintf("instruction budget %d exceeded in %s", w.cfg.MaxSteps, fr.fn)})
	}
	switch instr := instr.(type) {
	case *ssa.DebugRef:
		// no-op

	case *ssa.UnOp:
		fr.env[instr] = unop(fr, instr, fr.get(instr.X))

	case *ssa.BinOp:
		fr.env[instr] = binop(instr.Op, instr.X.Type(), fr.get(instr.X), fr.get(instr.Y))

	case *ssa.Call:
		fn, args := prepareCall(fr, &instr.Call)
		fr.env[instr] = call(fr.w, fr, instr.Pos(), fn, args)

	case *ssa.ChangeInterface:
		fr.env[instr] = fr.get(instr.X)

	case *ssa.ChangeType:
		fr.env[instr] = fr.get(instr.X) // (can't fail)

	case *ssa.Convert:
		fr.env[instr] = conv(instr.Type(), instr.X.Type(), fr.get(instr.X))

	case *ssa.SliceToArrayPointer:
		fr.env[instr] = sliceToArrayPointer(instr.Type(), instr.X.Type(), fr.get(instr.X))

	case *ssa.MakeInterface:
		fr.env[instr] = iface{t: instr.X.Type(), v: fr.get(instr.X)}

	case *ssa.Extract:
		fr.env[instr] = fr.get(instr.Tuple).(tuple)[instr.Index]

	case *ssa.Slice:
		fr.env[instr] = slice(fr.get(instr.X), fr.get(instr.Low), fr.get(instr.High), fr.get(instr.Max))

	case *ssa.Return:
		switch len(instr.Results) {
		case 0:
		case 1:
			fr.result = fr.get(instr.Results[0])
		default:
			var res []value
			for _, r := range instr.Results {
				res = append(res, fr.get(r))
			}
			fr.result = tuple(res)
		}
		fr.block = nil
		return kReturn

	case *ssa.RunDefers:
		fr.runDefers()

	case *ssa.Panic:
		panic(targetPanic{fr.get(instr.X)})

	case *ssa.Send:
		c := fr.get(instr.Chan).(*chanObj)
		v := fr.get(instr.X)
		if c == nil {
			w.park("send on nil channel")
		}
		w.chanSelect([]selCase{{ch: c, send: true, val: v}}, false)

	case *ssa.Store:
		store(mustDeref(instr.Addr.Type()), fr.get(instr.Addr).(*value), fr.get(instr.Val))

	case *ssa.If:
		succ := 1
		if w.concreteBool(fr.get(instr.Cond)) {
			succ = 0
		}
		fr.prevBlock, fr.block = fr.block, fr.block.Succs[succ]
		return kJump

	case *ssa.Jump:
		fr.prevBlock, fr.block = fr.block, fr.block.Succs[0]
		return kJump

	case *ssa.Defer:
		fn, args := prepareCall(fr, &instr.Call)
		defers := &fr.defers
		if into := fr.get(instr.DeferStack); into != nil {
			defers = into.(**deferred)
		}
		*defers = &deferred{
			fn:    fn,
			args:  args,
			instr: instr,
			tail:  *defers,
		}

	case *ssa.Go:
		fn, args := prepareCall(fr, &instr.Call)
		name := ""
		switch f := fn.(type) {
		case *ssa.Function:
			name = f.String()
		case *closure:
			name = f.Fn.String()
		}
		w.spawn(fn, args, instr.Pos(), false, name)
		w.maybePreempt()

	case *ssa.MakeChan:
		fr.env[instr] = w.newChan(int(asInt64(fr.get(instr.Size))))

	case *ssa.Alloc:
		var addr *value
		if instr.Heap {
			// new
			addr = new(value)
			fr.env[instr] = addr
		} else {
			// local
			addr = fr.env[instr].(*value)
		}
		*addr = zero(mustDeref(instr.Type()))

	case *ssa.MakeSlice:
		slice := make([]value, asInt64(fr.get(instr.Cap)))
		tElt := instr.Type().Underlying().(*types.Slice).Elem()
		for i := range slice {
			slice[i] = zero(tElt)
		}
		fr.env[instr] = slice[:asInt64(fr.get(instr.Len))]

	case *ssa.MakeMap:
		fr.env[instr] = makeMap(instr.Type().Underlying().(*types.Map).Key())

	case *ssa.Range:
		fr.env[instr] = rangeIter(fr.get(instr.X))

	case *ssa.Next:
		fr.env[instr] = fr.get(instr.Iter).(iter).next()

	case *ssa.FieldAddr:
		fr.env[instr] = &(*fr.get(instr.X).(*value)).(structure)[instr.Field]

	case *ssa.Field:
		fr.env[instr] = fr.get(instr.X).(structure)[instr.Field]

	case *ssa.IndexAddr:
		x := fr.get(instr.X)
		idx := fr.get(instr.Index)
		switch x := x.(type) {
		case []value:
			fr.env[instr] = &x[asInt64(idx)]
		case *value: // *array
			fr.env[instr] = &(*x).(array)[asInt64(idx)]
		default:
			panic(pathEnd{oEngine, fmt.Sprintf("unexpected x type in IndexAddr: %T", x)})
		}

	case *ssa.Index:
		x := fr.get(instr.X)
		idx := fr.get(instr.Index)

		switch x := x.(type) {
		case array:
			fr.env[instr] = x[asInt64(idx)]
		case string:
			fr.env[instr] = x[asInt64(idx)]
		default:
			panic(pathEnd{oEngine, fmt.Sprintf("unexpected x type in Index: %T", x)})
		}

	case *ssa.Lookup:
		fr.env[instr] = lookup(instr, fr.get(instr.X), fr.get(instr.Index))

	case *ssa.MapUpdate:
		m := fr.get(instr.Map).(*omap)
		if m == nil {
			panic("assignment to entry in nil map")
		}
		m.insert(fr.get(instr.Key), fr.get(instr.Value))

	case *ssa.TypeAssert:
		fr.env[instr] = typeAssert(instr, fr.get(instr.X).(iface))

	case *ssa.MakeClosure:
		var bindings []value
		for _, binding := range instr.Bindings {
			bindings = append(bindings, fr.get(binding))
		}
		fr.env[instr] = &closure{instr.Fn.(*ssa.Function), bindings}

	case *ssa.Phi:
		panic(pathEnd{oEngine, "unreachable phi"})

	case *ssa.Select:
		var cases []selCase
		for _, state := range instr.States {
			c, _ := fr.get(state.Chan).(*chanObj)
			sc := selCase{ch: c, send: state.Dir == types.SendOnly}
			if state.Send != nil {
				sc.val = fr.get(state.Send)
			}
			cases = append(cases, sc)
		}
		allNil := true
		for _, c := range cases {
			if c.ch != nil {
				allNil = false
			}
		}
		if allNil && instr.Blocking {
			w.park("select with no live case")
		}
		chosen, recv, recvOk := w.chanSelect(cases, !instr.Blocking)
		r := tuple{chosen, recvOk}
		for i, st := range instr.States {
			if st.Dir == types.RecvOnly {
				var v value
				if i == chosen && recvOk {
					v = recv
				} else {
					v = zero(st.Chan.Type().Underlying().(*types.Chan).Elem())
				}
				r = append(r, v)
			}
		}
		fr.env[instr] = r

	default:
		panic(pathEnd{oEngine, fmt.Sprintf("unexpected instruction: %T", instr)})
	}

	return kNext
}

// prepareCall determines the function value and argument values for a
// function call in a Call, Go or Defer instruction, performing
// interface method lookup if needed.
func prepareCall(fr *frame, call *ssa.CallCommon) (fn value, args []value) {
	v := fr.get(call.Value)
	if call.Method == nil {
		// Function call.
		fn = v
	} else {
		// Interface method invocation.
		recv := v.(iface)
		if recv.t == nil {
			if pkg := call.Method.Pkg(); pkg != nil && fr.w.p.isNoopIfacePkg(pkg.Path()) {
				// methods on nil tracing interfaces are no-ops
				return &nativeFn{name: "noop:" + call.Method.FullName(), fn: func(fr *frame, args []value) value {
					return zeroResults(call.Method.Type().(*types.Signature), args)
				}}, fr.getArgs(call)
			}
			panic("invalid memory address or nil pointer dereference (method invoked on nil interface)")
		}
		if f := lookupMethod(fr.w, recv.t, call.Method); f == nil {
			// Unreachable in well-typed programs.
			panic(pathEnd{oEngine, fmt.Sprintf("method set for dynamic type %v does not contain %s", recv.t, call.Method)})
		} else {
			fn = f
		}
		args = append(args, recv.v)
	}
	for _, arg := range call.Args {
		args = append(args, fr.get(arg))
	}
	return
}

func (fr *frame) getArgs(call *ssa.CallCommon) []value {
	var args []value
	for _, arg := range call.Args {
		args = append(args, fr.get(arg))
	}
	return args
}

// zeroResults returns the zero value(s) of a signature's results; a context
// result (for tracer.Start-like methods) is passed through from the args.
func zeroResults(sig *types.Signature, args []value) value {
	res := sig.Results()
	switch res.Len() {
	case 0:
		return nil
	case 1:
		return zeroOrPass(res.At(0).Type(), args)
	}
	t := make(tuple, res.Len())
	for i := range t {
		t[i] = zeroOrPass(res.At(i).Type(), args)
	}
	return t
}

func zeroOrPass(t types.Type, args []value) value {
	if isContextType(t) {
		for _, a := range args {
			if itf, ok := a.(iface); ok && itf.t != nil && types.Implements(itf.t, t.Underlying().(*types.Interface)) {
				return a
			}
		}
	}
	return zero(t)
}

func isContextType(t types.Type) bool {
	n, ok := types.Unalias(t).(*types.Named)
	return ok && n.Obj().Pkg() != nil && n.Obj().Pkg().Path() == "context" && n.Obj().Name() == "Context"
}

// nativeFn is a function value implemented by the engine.
type nativeFn struct {
	name string
	fn   func(fr *frame, args []value) value
}

// call interprets a call to a function (function, builtin or closure)
// fn with arguments args, returning its result.
// callpos is the position of the callsite.
func call(w *world, caller *frame, callpos token.Pos, fn value, args []value) value {
	switch fn := fn.(type) {
	case *ssa.Function:
		if fn == nil {
			panic("invalid memory address or nil pointer dereference (call of nil function)")
		}
		return callSSA(w, caller, callpos, fn, args, nil)
	case *closure:
		return callSSA(w, caller, callpos, fn.Fn, args, fn.Env)
	case *ssa.Builtin:
		return callBuiltin(caller, fn, args)
	case *nativeFn:
		fr := &frame{w: w, caller: caller}
		return fn.fn(fr, args)
	}
	panic(pathEnd{oEngine, fmt.Sprintf("cannot call %T", fn)})
}

func loc(fset *token.FileSet, pos token.Pos) string {
	if pos == token.NoPos {
		return ""
	}
	return " at " + fset.Position(pos).String()
}

// callSSA interprets a call to function fn with arguments args,
// and lexical environment env, returning its result.
// callpos is the position of the callsite.
func callSSA(w *world, caller *frame, callpos token.Pos, fn *ssa.Function, args []value, env []value) value {
	fr := &frame{
		w:      w,
		caller: caller, // for panic/recover
		fn:     fn,
	}
	info := w.p.fnInfo(fn)
	if w.stubs != nil {
		if st, ok := w.stubs[info.name]; ok {
			if w.natives != nil {
				w.natives["harness-stub:"+info.name] = true
			}
			return call(w, caller, callpos, st, args)
		}
	}
	if info.ext != nil {
		if w.natives != nil {
			w.natives[info.name] = true
		}
		return info.ext(fr, args)
	}
	if info.stubZero {
		if w.natives != nil {
			w.natives["stub:"+info.name] = true
		}
		return w.p.stubResult(fn, args)
	}
	if info.isInit {
		w.p.callInit(fr, fn, info, func() { execSSA(w, fr, fn, info, args, env) })
		return nil
	}
	if fn.Blocks == nil {
		panic(unsupported("no code for function: " + info.name))
	}
	if info.unsupported != "" {
		panic(unsupported(info.unsupported + ": " + info.name))
	}

	return execSSA(w, fr, fn, info, args, env)
}

func execSSA(w *world, fr *frame, fn *ssa.Function, info *fnInfo, args []value, env []value) value {
	// generic function body?
	if fn.TypeParams().Len() > 0 && len(fn.TypeArgs()) == 0 {
		panic(pathEnd{oEngine, "uninstantiated generic " + info.name})
	}
	if w.fnsSeen != nil && !w.fnsSeen[fn] {
		w.fnsSeen[fn] = true
	}
	w.depth++
	if w.depth > w.cfg.MaxDepth {
		panic(pathEnd{oUnwind, "call depth exceeded in " + info.name})
	}
	defer func() { w.depth-- }()

	fr.env = make(map[ssa.Value]value, info.nvals)
	fr.block = fn.Blocks[0]
	fr.locals = make([]value, len(fn.Locals))
	for i, l := range fn.Locals {
		fr.locals[i] = zero(mustDeref(l.Type()))
		fr.env[l] = &fr.locals[i]
	}
	for i, p := range fn.Params {
		fr.env[p] = args[i]
	}
	for i, fv := range fn.FreeVars {
		fr.env[fv] = env[i]
	}
	for fr.block != nil {
		runFrame(fr)
	}
	return fr.result
}

// runFrame executes SSA instructions starting at fr.block and
// continuing until a return, a panic, or a recovered panic.
func runFrame(fr *frame) {
	defer func() {
		if fr.block == nil {
			return // normal return
		}
		r := recover()
		if isEngineAbort(r) {
			panic(r)
		}
		fr.panicking = true
		fr.panic = r
		fr.runDefers()
		fr.block = fr.fn.Recover
	}()

	for {
		nonPhis := executePhis(fr)
		for _, instr := range nonPhis {
			if visitInstr(fr, instr) == kReturn {
				return
			}
			// Inv: kNext (continue) or kJump (last instr)
		}
	}
}

// executePhis executes the phi-nodes at the start of the current
// block and returns the non-phi instructions.
func executePhis(fr *frame) []ssa.Instruction {
	firstNonPhi := -1
	for i, instr := range fr.block.Instrs {
		if _, ok := instr.(*ssa.Phi); !ok {
			firstNonPhi = i
			break
		}
	}
	// Inv: 0 <= firstNonPhi; every block contains a non-phi.

	nonPhis := fr.block.Instrs[firstNonPhi:]
	if firstNonPhi > 0 {
		phis := fr.block.Instrs[:firstNonPhi]
		predIndex := slices.Index(fr.block.Preds, fr.prevBlock)
		fr.phitemps = fr.phitemps[:0]
		for _, phi := range phis {
			phi := phi.(*ssa.Phi)
			fr.phitemps = append(fr.phitemps, fr.get(phi.Edges[predIndex]))
		}
		for i, phi := range phis {
			fr.env[phi.(*ssa.Phi)] = fr.phitemps[i]
		}
	}
	return nonPhis
}

// doRecover implements the recover() built-in.
func doRecover(caller *frame) value {
	// recover() must be exactly one level beneath the deferred
	// function (two levels beneath the panicking function) to
	// have any effect.  Thus we ignore both "defer recover()" and
	// "defer f() -> g() -> recover()".
	if caller != nil && !caller.panicking &&
		caller.caller != nil && caller.caller.panicking {
		caller.caller.panicking = false
		p := caller.caller.panic
		caller.caller.panic = nil

		switch p := p.(type) {
		case targetPanic:
			// The target program explicitly called panic().
			return p.v
		case runtime.Error:
			// The interpreter encountered a runtime error.
			return iface{caller.w.p.runtimeErrorString, p.Error()}
		case string:
			// The interpreter explicitly called panic().
			return iface{caller.w.p.runtimeErrorString, "runtime error: " + strings.TrimPrefix(p, "runtime error: ")}
		default:
			panic(pathEnd{oEngine, fmt.Sprintf("unexpected panic type %T in target call to recover()", p)})
		}
	}
	return iface{}
}
