package interp

// Exploration driver: work-list of decision prefixes, worker pool, result
// aggregation.

import (
	"fmt"
	"math/rand"
	"os"
	"sort"
	"strings"
	"sync"
	"time"

	"golang.org/x/tools/go/ssa"
)

// Sample is one explored path written out for the evidence file.
type Sample struct {
	Entry   string            `json:"entry"`
	Outcome string            `json:"outcome"`
	Trace   []int             `json:"decisions"`
	Nondet  []NondetRec       `json:"inputs"`
	Events  []string          `json:"events"`
	PC      []string          `json:"path_condition,omitempty"`
	Prefix  pathPrefix        `json:"-"`
}

type Result struct {
	Entry         string
	Paths         int
	Transitions   int
	ByOutcome     map[string]int
	Violations    []*Violation
	ViolPrefixes  []pathPrefix
	KnownSeen     map[string]string
	Covers        map[string]int
	Samples       []Sample
	Funcs         map[string]int
	Natives       map[string]bool
	Solver        solverStats
	AssertQueries int64
	FeasUnknown   int
	AssumeDropped int
	Switches      int
	Inconclusive  []string
	WallS         float64
	BoundExceeded bool
	MaxTraceLen   int
	Steps         int64
}

func (p *Program) newWorld(cfg *RunConfig, entry string, prefix pathPrefix, sol *solver) *world {
	w := &world{
		p:         p,
		cfg:       cfg,
		entry:     entry,
		globals:   make(map[*ssa.Global]*value),
		cloneMemo: make(map[any]any),
		tt:        newTermTable(),
		sol:       sol,
		defined:   make(map[*term]bool),
		pcSet:     make(map[*term]bool),
		prefix:    prefix,
		covers:    make(map[string]bool),
		outcome:   pathEnd{oKilled, ""},
	}
	w.initSched()
	return w
}

// run executes fn(args) as the main goroutine of the world and tears the
// world down afterwards.  It returns the outcome of the path.
func (w *world) run(fn value, args []value) pathEnd {
	s := &w.sched
	g0 := w.spawn(fn, args, 0, true, "main")
	s.runq = s.runq[:0]
	g0.state = gRunning
	s.cur = g0
	g0.resume <- struct{}{}
	<-s.driver
	// teardown
	s.killed = true
	for i := 0; i < len(s.gs); i++ {
		g := s.gs[i]
		if !g.finished {
			g.resume <- struct{}{}
			<-s.driver
		}
	}
	return w.outcome
}

type workList struct {
	mu       sync.Mutex
	cond     *sync.Cond
	items    []pathPrefix
	inflight int
	done     bool
}

func (wl *workList) pop() (pathPrefix, bool) {
	wl.mu.Lock()
	defer wl.mu.Unlock()
	for {
		if wl.done {
			return pathPrefix{}, false
		}
		if n := len(wl.items); n > 0 {
			it := wl.items[n-1]
			wl.items = wl.items[:n-1]
			wl.inflight++
			return it, true
		}
		if wl.inflight == 0 {
			wl.done = true
			wl.cond.Broadcast()
			return pathPrefix{}, false
		}
		wl.cond.Wait()
	}
}

func (wl *workList) finish(newItems []pathPrefix) {
	wl.mu.Lock()
	wl.items = append(wl.items, newItems...)
	wl.inflight--
	wl.cond.Broadcast()
	wl.mu.Unlock()
}

func (wl *workList) stop() {
	wl.mu.Lock()
	wl.done = true
	wl.cond.Broadcast()
	wl.mu.Unlock()
}

// Explore runs entry exhaustively within cfg's bounds.
func (p *Program) Explore(entryFn *ssa.Function, cfg RunConfig) *Result {
	cfg.fill()
	t0 := time.Now()
	res := &Result{
		Entry:     entryFn.String(),
		ByOutcome: make(map[string]int),
		KnownSeen: make(map[string]string),
		Covers:    make(map[string]int),
		Funcs:     make(map[string]int),
		Natives:   make(map[string]bool),
	}
	wl := &workList{}
	wl.cond = sync.NewCond(&wl.mu)
	wl.items = []pathPrefix{{}}
	var rmu sync.Mutex
	rng := rand.New(rand.NewSource(cfg.Seed))
	fns := make(map[*ssa.Function]bool)
	incon := make(map[string]bool)
	var wg sync.WaitGroup
	stopProgress := make(chan struct{})
	go func() {
		tk := time.NewTicker(15 * time.Second)
		defer tk.Stop()
		for {
			select {
			case <-stopProgress:
				return
			case <-tk.C:
				rmu.Lock()
				wl.mu.Lock()
				pending := len(wl.items)
				wl.mu.Unlock()
				el := time.Since(t0).Seconds()
				if p.Verbose {
					fmt.Fprintf(os.Stderr, "  ... %s: %.0fs paths=%d (%.0f/s) pending=%d outcomes=%v\n", entryFn.Name(), el, res.Paths, float64(res.Paths)/el, pending, res.ByOutcome)
				}
				if cfg.MaxWallS > 0 && el > float64(cfg.MaxWallS) {
					res.BoundExceeded = true
					rmu.Unlock()
					wl.stop()
					return
				}
				rmu.Unlock()
			}
		}
	}()
	for i := 0; i < cfg.Workers; i++ {
		wg.Add(1)
		go func() {
			defer wg.Done()
			sol, err := newSolver(cfg.Solver, cfg.SolverTimeoutMs, cfg.IntEncoding)
			if err != nil {
				rmu.Lock()
				incon["solver start: "+err.Error()] = true
				rmu.Unlock()
				wl.stop()
				return
			}
			defer func() {
				rmu.Lock()
				res.Solver.Queries += sol.stats.Queries
				res.Solver.Sat += sol.stats.Sat
				res.Solver.Unsat += sol.stats.Unsat
				res.Solver.Unknown += sol.stats.Unknown
				res.Solver.Errors += sol.stats.Errors
				res.Solver.TimeNs += sol.stats.TimeNs
				res.Solver.CacheHits += sol.stats.CacheHits
				rmu.Unlock()
				sol.close()
			}()
			for {
				prefix, ok := wl.pop()
				if !ok {
					return
				}
				w := p.newWorld(&cfg, res.Entry, prefix, sol)
				w.fnsSeen = make(map[*ssa.Function]bool)
				w.natives = make(map[string]bool)
				sol.send("(push)")
				out := w.run(entryFn, nil)
				var sample *Sample
				rmu.Lock()
				wantSample := len(res.Samples) < cfg.Samples || rng.Intn(200) == 0
				rmu.Unlock()
				if wantSample && out.kind == oDone && !sol.dead {
					if m, ok := w.model(nil); ok {
						sample = &Sample{Entry: res.Entry, Outcome: out.kind.String(), Trace: w.trace, Nondet: w.fillNondet(m), Events: w.events, Prefix: pathPrefix{Alts: w.trace, Cvals: w.ctrace}}
						for i, c := range w.pc {
							if i >= 12 {
								break
							}
							sample.PC = append(sample.PC, truncate(c.String(), 160))
						}
					}
				}
				// the model of a path that ends in a crash or a deadlock must be
				// taken while its path condition is still asserted
				var endModel map[string]uint64
				endFeasible := false
				if (out.kind == oCrash || out.kind == oBlocked) && !sol.dead {
					endModel, endFeasible = w.model(nil)
				}
				sol.send("(pop)")
				if sol.dead {
					rmu.Lock()
					incon["solver process died"] = true
					rmu.Unlock()
					wl.finish(nil)
					wl.stop()
					return
				}
				rmu.Lock()
				res.Paths++
				res.Transitions += len(w.trace)
				res.Steps += w.steps
				if len(w.trace) > res.MaxTraceLen {
					res.MaxTraceLen = len(w.trace)
				}
				res.ByOutcome[out.kind.String()]++
				res.FeasUnknown += w.feasUnknown
				res.Switches += w.sched.switches
				for c := range w.covers {
					res.Covers[c]++
				}
				for k, v := range w.kfSeen {
					res.KnownSeen[k] = v
				}
				for f := range w.fnsSeen {
					fns[f] = true
				}
				for n := range w.natives {
					res.Natives[n] = true
				}
				if sample != nil {
					if len(res.Samples) < cfg.Samples {
						res.Samples = append(res.Samples, *sample)
					} else {
						res.Samples[rng.Intn(len(res.Samples))] = *sample
					}
				}
				stop := false
				switch out.kind {
				case oViolation:
					if w.viol != nil {
						res.Violations = append(res.Violations, w.viol)
						res.ViolPrefixes = append(res.ViolPrefixes, pathPrefix{Alts: w.trace, Cvals: w.ctrace})
					}
					if len(res.Violations) >= cfg.StopAfterViol {
						stop = true
					}
				case oCrash, oBlocked:
					m, feasible := endModel, endFeasible
					if !feasible {
						// the path condition has no model: the path itself is an
						// artefact (must not happen: every branch is solver-checked)
						key := "ENGINE-ERROR: path ending in " + out.kind.String() + " has an unsatisfiable path condition: " + truncate(out.msg, 500)
						incon[key] = true
						break
					}
					v := &Violation{Kind: strings.ToLower(out.kind.String()), Label: out.kind.String(), Msg: out.msg, Trace: w.trace, Model: m, Nondet: w.fillNondet(m), Events: w.events, Entry: res.Entry}
					res.Violations = append(res.Violations, v)
					res.ViolPrefixes = append(res.ViolPrefixes, pathPrefix{Alts: w.trace, Cvals: w.ctrace})
					if len(res.Violations) >= cfg.StopAfterViol {
						stop = true
					}
				case oInfeasible:
					res.AssumeDropped++
				case oUnsupported, oUnwind, oEngine:
					key := out.kind.String() + ": " + truncate(out.msg, 1500)
					if len(incon) < 20 {
						incon[key] = true
					}
				}
				if res.Paths >= cfg.MaxPaths {
					res.BoundExceeded = true
					stop = true
				}
				rmu.Unlock()
				wl.finish(w.newAlts)
				if stop {
					wl.stop()
				}
			}
		}()
	}
	wg.Wait()
	close(stopProgress)
	for f := range fns {
		n := 0
		for _, b := range f.Blocks {
			n += len(b.Instrs)
		}
		res.Funcs[f.String()] = n
	}
	for k := range incon {
		res.Inconclusive = append(res.Inconclusive, k)
	}
	sort.Strings(res.Inconclusive)
	res.AssertQueries = p.assertQueries
	res.WallS = time.Since(t0).Seconds()
	return res
}

func (r *Result) Summary() string {
	var ks []string
	for k, v := range r.ByOutcome {
		ks = append(ks, fmt.Sprintf("%s=%d", k, v))
	}
	sort.Strings(ks)
	return fmt.Sprintf("%s: paths=%d transitions=%d [%s] queries=%d (sat %d unsat %d unknown %d, cache %d) solver=%.1fs wall=%.1fs",
		r.Entry, r.Paths, r.Transitions, strings.Join(ks, " "), r.Solver.Queries, r.Solver.Sat, r.Solver.Unsat, r.Solver.Unknown, r.Solver.CacheHits, float64(r.Solver.TimeNs)/1e9, r.WallS)
}
