package interp

// multihash.Sum runs natively (the real go-multihash library with every
// hasher of register/all, exactly what the code under test links): hash
// functions are cryptographic kernels outside the symbolic executor's reach.
// Data, code and length are concretised first (exhaustively, see concretize).

import (

	mh "github.com/multiformats/go-multihash"
	mhreg "github.com/multiformats/go-multihash/core"
	_ "github.com/multiformats/go-multihash/register/all"
)

func init() {
	reg("github.com/multiformats/go-multihash.Sum", func(fr *frame, a []value) value {
		// the identity "hash" is plain byte shuffling: interpret the real code
		// (its length argument may be symbolic)
		if c, isConcrete := a[1].(uint64); isConcrete && c == mh.IDENTITY {
			return execSSA(fr.w, fr, fr.fn, fr.w.p.fnInfo(fr.fn), a, nil)
		}
		// an unregistered function code is refused before anything else is looked at
		if c, isConcrete := a[1].(uint64); isConcrete {
			if _, err := mhreg.GetHasher(c); err != nil {
				return tuple{[]value(nil), fr.w.newError(err.Error())}
			}
		}
		var data []byte
		if a[0] != nil {
			data = bytesOf(a[0])
		}
		code := concrete(a[1]).(uint64)
		length := concrete(a[2]).(int)
		out, err := mh.Sum(data, code, length)
		if err != nil {
			return tuple{[]value(nil), fr.w.newError(err.Error())}
		}
		return tuple{valuesOfBytes(out), iface{}}
	})
}
