package interp

// Interpreted goroutines as baton-passing coroutines; engine-owned channels,
// select, mutexes, conds, wait groups, virtual timers.  Exactly one real
// goroutine of a world runs at any time.

import (
	"fmt"
	"go/token"
	"go/types"
	"runtime"
	"sort"
)

type gstate int

const (
	gRunnable gstate = iota
	gRunning
	gBlocked
	gDone
)

type goroutine struct {
	id        int
	resume    chan struct{}
	state     gstate
	waitDesc  string
	isMain    bool
	quiescing bool
	finished  bool
	name      string
}

type vtimer struct {
	when    int64
	seq     int
	fire    func()
	stopped bool
	period  int64
	fires   int
}

type scheduler struct {
	gs          []*goroutine
	cur         *goroutine
	runq        []*goroutine
	driver      chan struct{}
	killed      bool
	timers      []*vtimer
	now         int64
	tseq        int
	preemptLeft int
	switches    int
	mutexes     map[*value]*mutexObj
	conds       map[*value]*condObj
	wgs         map[*value]*wgObj
	onces       map[*value]*onceObj
	nextChan    int
	timerTab    map[*value]*vtimer
}

func (w *world) initSched() {
	s := &w.sched
	s.driver = make(chan struct{}, 1)
	s.mutexes = make(map[*value]*mutexObj)
	s.conds = make(map[*value]*condObj)
	s.wgs = make(map[*value]*wgObj)
	s.onces = make(map[*value]*onceObj)
	s.preemptLeft = w.cfg.Preempt
}

// spawn creates an interpreted goroutine that will run fn(args).
func (w *world) spawn(fn value, args []value, pos token.Pos, isMain bool, name string) *goroutine {
	s := &w.sched
	g := &goroutine{id: len(s.gs), resume: make(chan struct{}, 1), state: gRunnable, isMain: isMain, name: name}
	s.gs = append(s.gs, g)
	s.runq = append(s.runq, g)
	go func() {
		<-g.resume
		if s.killed {
			g.finished = true
			g.state = gDone
			s.driver <- struct{}{}
			return
		}
		defer func() {
			r := recover()
			g.state = gDone
			g.finished = true
			if s.killed {
				// torn down (or somebody else already ended the path)
				if pe, ok := r.(pathEnd); ok && pe.kind != oKilled && w.outcome.kind == oKilled {
					w.outcome = pe
				}
				s.driver <- struct{}{}
				return
			}
			switch r := r.(type) {
			case nil:
				if isMain {
					w.endPath(pathEnd{oDone, ""})
					s.driver <- struct{}{}
					return
				}
				// ordinary goroutine exit: hand the baton on
				w.switchFrom(g)
				return
			case pathEnd:
				w.endPath(r)
			case targetPanic:
				w.endPath(pathEnd{oCrash, fmt.Sprintf("goroutine %d (%s): panic: %s", g.id, g.name, truncate(w.panicString(r.v), 400))})
			case runtime.Error:
				if _, isTA := r.(*runtime.TypeAssertionError); isTA {
					buf := make([]byte, 6000)
					n := runtime.Stack(buf, false)
					w.endPath(pathEnd{oEngine, "interpreter type assertion: " + r.Error() + "\n" + string(buf[:n])})
				} else {
					w.endPath(pathEnd{oCrash, fmt.Sprintf("goroutine %d (%s): runtime error: %s", g.id, g.name, r.Error())})
				}
			case string:
				w.endPath(pathEnd{oCrash, fmt.Sprintf("goroutine %d (%s): runtime panic: %s", g.id, g.name, r)})
			default:
				w.endPath(pathEnd{oEngine, fmt.Sprintf("unexpected panic value %T: %v", r, r)})
			}
			s.driver <- struct{}{}
		}()
		g.state = gRunning
		s.cur = g
		call(w, nil, pos, fn, args)
	}()
	return g
}

func (w *world) panicString(v value) string {
	if itf, ok := v.(iface); ok {
		if s, ok := itf.v.(string); ok {
			return s
		}
		if itf.t != nil {
			// try Error() / String()
			for _, m := range []string{"Error", "String"} {
				if fn := w.p.lookupMethodByName(itf.t, m); fn != nil {
					var res string
					func() {
						defer func() {
							if r := recover(); r != nil {
								if pe, ok := r.(pathEnd); ok {
									panic(pe)
								}
								res = toString(v)
							}
						}()
						r := call(w, nil, token.NoPos, fn, []value{itf.v})
						if s, ok := r.(string); ok {
							res = s
						}
					}()
					if res != "" {
						return fmt.Sprintf("%s{%s}", itf.t, res)
					}
				}
			}
		}
	}
	return toString(v)
}

// endPath records the outcome of the path (first one wins) and marks the
// world as being torn down.
func (w *world) endPath(pe pathEnd) {
	if !w.sched.killed {
		w.outcome = pe
		w.sched.killed = true
	}
}

func (w *world) makeRunnable(g *goroutine) {
	if g.state == gBlocked {
		g.state = gRunnable
		g.quiescing = false
		w.sched.runq = append(w.sched.runq, g)
	}
}

// pickNext selects the goroutine to run next, firing virtual timers or
// waking a quiescing main goroutine when nothing is runnable.  It returns nil
// when the world is deadlocked.
func (w *world) pickNext() *goroutine {
	s := &w.sched
	for {
		if len(s.runq) > 0 {
			idx := 0
			if len(s.runq) > 1 && w.cfg.SchedAll {
				idx = w.choice(len(s.runq))
			}
			g := s.runq[idx]
			s.runq = append(s.runq[:idx:idx], s.runq[idx+1:]...)
			return g
		}
		// nothing runnable: a quiescing goroutine other than the harness's
		// main one (a "slow step") resumes first, one at a time, so that the
		// main goroutine's Quiesce only returns once those have run on as far
		// as they can; then the quiescing main goroutine; then timers
		woke := false
		for _, g := range s.gs {
			if g.state == gBlocked && g.quiescing && !g.isMain {
				w.makeRunnable(g)
				woke = true
				break
			}
		}
		if !woke {
			for _, g := range s.gs {
				if g.state == gBlocked && g.quiescing {
					w.makeRunnable(g)
				}
			}
		}
		if len(s.runq) > 0 {
			continue
		}
		if w.fireNextTimer() {
			continue
		}
		return nil
	}
}

// switchFrom is called by g when it can no longer run (blocked or done).
func (w *world) switchFrom(g *goroutine) {
	s := &w.sched
	next := w.pickNext()
	if next == nil {
		// deadlock
		desc := ""
		for _, x := range s.gs {
			if x.state == gBlocked {
				desc += fmt.Sprintf(" g%d(%s):%s", x.id, x.name, x.waitDesc)
			}
		}
		w.endPath(pathEnd{oBlocked, "all goroutines blocked:" + desc})
		s.driver <- struct{}{}
	} else if next == g {
		g.state = gRunning
		s.cur = g
		return
	} else {
		s.switches++
		next.state = gRunning
		s.cur = next
		next.resume <- struct{}{}
	}
	if g.finished {
		return
	}
	<-g.resume
	if s.killed {
		panic(pathEnd{oKilled, ""})
	}
	g.state = gRunning
	s.cur = g
}

// park blocks the current goroutine until somebody makes it runnable.
func (w *world) park(desc string) {
	g := w.sched.cur
	g.state = gBlocked
	g.waitDesc = desc
	w.switchFrom(g)
}

// yield puts the current goroutine at the back of the run queue.
func (w *world) yield() {
	g := w.sched.cur
	if len(w.sched.runq) == 0 {
		return
	}
	g.state = gRunnable
	w.sched.runq = append(w.sched.runq, g)
	w.switchFrom(g)
}

// maybePreempt is called at scheduling points: with a preemption budget, the
// engine may switch away from a goroutine that could continue.
func (w *world) maybePreempt() {
	s := &w.sched
	if s.preemptLeft <= 0 || len(s.runq) == 0 || s.cur == nil {
		return
	}
	if w.choice(2) == 1 {
		s.preemptLeft--
		w.yield()
	}
}

// quiesce parks the main goroutine until every other goroutine is blocked.
func (w *world) quiesce() {
	g := w.sched.cur
	if len(w.sched.runq) == 0 {
		// nothing runnable: return at once, unless another goroutine is parked
		// in its own Quiesce (a slow step) and is waiting for exactly this
		other := false
		for _, x := range w.sched.gs {
			if x != g && x.state == gBlocked && x.quiescing {
				other = true
			}
		}
		if !other {
			return
		}
	}
	g.state = gBlocked
	g.quiescing = true
	g.waitDesc = "quiesce"
	w.switchFrom(g)
}

// ---------------------------------------------------------------------
// Virtual time

func (w *world) addTimer(d int64, period int64, fire func()) *vtimer {
	s := &w.sched
	if d < 0 {
		d = 0
	}
	s.tseq++
	t := &vtimer{when: s.now + d, seq: s.tseq, fire: fire, period: period}
	s.timers = append(s.timers, t)
	return t
}

// fireNextTimer fires the earliest pending timer.  Automatic firing (all
// goroutines blocked) lets a periodic timer fire at most TickerBudget times per
// path; oneShotOnly restricts the choice to non-periodic timers.
func (w *world) fireNextTimer() bool { return w.fireTimer(false) }

func (w *world) fireTimer(oneShotOnly bool) bool {
	s := &w.sched
	var live []*vtimer
	for _, t := range s.timers {
		if !t.stopped {
			live = append(live, t)
		}
	}
	s.timers = live
	var cand []*vtimer
	for _, t := range live {
		if oneShotOnly && t.period > 0 {
			continue
		}
		if t.period > 0 && t.fires >= w.cfg.TickerBudget {
			continue // automatic budget used up; only TickPeriodic fires it
		}
		cand = append(cand, t)
	}
	if len(cand) == 0 {
		return false
	}
	sort.SliceStable(cand, func(i, j int) bool {
		if cand[i].when != cand[j].when {
			return cand[i].when < cand[j].when
		}
		return cand[i].seq < cand[j].seq
	})
	t := cand[0]
	if t.when > s.now {
		s.now = t.when
	}
	if t.period > 0 {
		t.fires++
		t.when = s.now + t.period
	} else {
		t.stopped = true
	}
	t.fire()
	return true
}

// firePeriodic fires every live periodic timer once (harness-driven, not
// counted against the automatic budget).  It reports whether there was one.
func (w *world) firePeriodic() bool {
	s := &w.sched
	any := false
	for _, t := range append([]*vtimer(nil), s.timers...) {
		if t.stopped || t.period <= 0 {
			continue
		}
		any = true
		if t.when > s.now {
			s.now = t.when
		}
		t.when = s.now + t.period
		t.fire()
	}
	return any
}

// ---------------------------------------------------------------------
// Channels

type chanObj struct {
	id     int
	cap    int
	buf    []value
	closed bool
	recvq  []*waiter
	sendq  []*waiter
}

type selState struct {
	g          *goroutine
	fired      bool
	idx        int
	val        value
	ok         bool
	closedSend bool
}

type waiter struct {
	sel  *selState
	idx  int
	send bool
	val  value
}

type selCase struct {
	ch   *chanObj
	send bool
	val  value
	elem types.Type
}

func (w *world) newChan(capacity int) *chanObj {
	w.sched.nextChan++
	return &chanObj{id: w.sched.nextChan, cap: capacity}
}

func popWaiter(q *[]*waiter) *waiter {
	for len(*q) > 0 {
		wt := (*q)[0]
		*q = (*q)[1:]
		if !wt.sel.fired {
			return wt
		}
	}
	return nil
}

func hasWaiter(q []*waiter) bool {
	for _, wt := range q {
		if !wt.sel.fired {
			return true
		}
	}
	return false
}

func (w *world) fire(wt *waiter, v value, ok bool) {
	wt.sel.fired = true
	wt.sel.idx = wt.idx
	wt.sel.val = v
	wt.sel.ok = ok
	w.makeRunnable(wt.sel.g)
}

func (c *chanObj) sendReady() bool {
	return c.closed || hasWaiter(c.recvq) || len(c.buf) < c.cap
}
func (c *chanObj) recvReady() bool {
	return len(c.buf) > 0 || hasWaiter(c.sendq) || c.closed
}

func (w *world) doSend(c *chanObj, v value) {
	if c.closed {
		panic("send on closed channel")
	}
	if wt := popWaiter(&c.recvq); wt != nil {
		w.fire(wt, v, true)
		return
	}
	c.buf = append(c.buf, v)
}

func (w *world) doRecv(c *chanObj) (value, bool) {
	if len(c.buf) > 0 {
		v := c.buf[0]
		c.buf = c.buf[1:]
		if wt := popWaiter(&c.sendq); wt != nil {
			c.buf = append(c.buf, wt.val)
			w.fire(wt, nil, true)
		}
		return v, true
	}
	if wt := popWaiter(&c.sendq); wt != nil {
		v := wt.val
		w.fire(wt, nil, true)
		return v, true
	}
	// closed
	return nil, false
}

// chanSelect performs a select.  It returns the index of the chosen case
// (-1 for default), and for receives the value and ok flag.
func (w *world) chanSelect(cases []selCase, hasDefault bool) (int, value, bool) {
	w.maybePreempt()
	var ready []int
	for i, cs := range cases {
		if cs.ch == nil {
			continue
		}
		if cs.send {
			if cs.ch.sendReady() {
				ready = append(ready, i)
			}
		} else if cs.ch.recvReady() {
			ready = append(ready, i)
		}
	}
	if len(ready) > 0 {
		k := 0
		if len(ready) > 1 && w.cfg.SchedAll {
			k = w.choice(len(ready))
		}
		i := ready[k]
		cs := cases[i]
		if cs.send {
			w.doSend(cs.ch, cs.val)
			return i, nil, false
		}
		v, ok := w.doRecv(cs.ch)
		return i, v, ok
	}
	if hasDefault {
		return -1, nil, false
	}
	sel := &selState{g: w.sched.cur}
	desc := "chan"
	for i, cs := range cases {
		if cs.ch == nil {
			continue
		}
		wt := &waiter{sel: sel, idx: i, send: cs.send, val: cs.val}
		if cs.send {
			cs.ch.sendq = append(cs.ch.sendq, wt)
			desc += fmt.Sprintf(" send#%d", cs.ch.id)
		} else {
			cs.ch.recvq = append(cs.ch.recvq, wt)
			desc += fmt.Sprintf(" recv#%d", cs.ch.id)
		}
	}
	w.park(desc)
	if sel.closedSend {
		panic("send on closed channel")
	}
	return sel.idx, sel.val, sel.ok
}

func (w *world) chanClose(c *chanObj) {
	if c == nil {
		panic("close of nil channel")
	}
	if c.closed {
		panic("close of closed channel")
	}
	w.maybePreempt()
	c.closed = true
	for {
		wt := popWaiter(&c.recvq)
		if wt == nil {
			break
		}
		w.fire(wt, nil, false)
	}
	for {
		wt := popWaiter(&c.sendq)
		if wt == nil {
			break
		}
		wt.sel.closedSend = true
		w.fire(wt, nil, false)
	}
}

// ---------------------------------------------------------------------
// sync primitives (keyed by the address of the Go object)

type mutexObj struct {
	locked  bool
	readers int
	waitq   []*lockWaiter
}

type lockWaiter struct {
	g      *goroutine
	reader bool
}

func (w *world) mutexOf(p *value) *mutexObj {
	m := w.sched.mutexes[p]
	if m == nil {
		m = &mutexObj{}
		w.sched.mutexes[p] = m
	}
	return m
}

func (w *world) lock(p *value) {
	w.maybePreempt()
	m := w.mutexOf(p)
	if !m.locked && m.readers == 0 {
		m.locked = true
		return
	}
	m.waitq = append(m.waitq, &lockWaiter{g: w.sched.cur})
	w.park("mutex.Lock")
}

func (w *world) tryLock(p *value) bool {
	m := w.mutexOf(p)
	if !m.locked && m.readers == 0 {
		m.locked = true
		return true
	}
	return false
}

func (w *world) rlock(p *value) {
	w.maybePreempt()
	m := w.mutexOf(p)
	if !m.locked && len(m.waitq) == 0 {
		m.readers++
		return
	}
	m.waitq = append(m.waitq, &lockWaiter{g: w.sched.cur, reader: true})
	w.park("rwmutex.RLock")
}

func (w *world) grantLocks(m *mutexObj) {
	for len(m.waitq) > 0 {
		h := m.waitq[0]
		if h.reader {
			if m.locked {
				return
			}
			m.readers++
			m.waitq = m.waitq[1:]
			w.makeRunnable(h.g)
			continue
		}
		if m.locked || m.readers > 0 {
			return
		}
		m.locked = true
		m.waitq = m.waitq[1:]
		w.makeRunnable(h.g)
		return
	}
}

func (w *world) unlock(p *value) {
	m := w.mutexOf(p)
	if !m.locked {
		panic(targetPanic{iface{t: types.Typ[types.String], v: "sync: unlock of unlocked mutex"}})
	}
	m.locked = false
	w.grantLocks(m)
}

func (w *world) runlock(p *value) {
	m := w.mutexOf(p)
	if m.readers <= 0 {
		panic(targetPanic{iface{t: types.Typ[types.String], v: "sync: RUnlock of unlocked RWMutex"}})
	}
	m.readers--
	w.grantLocks(m)
}

type condObj struct {
	waitq []*goroutine
}

func (w *world) condOf(p *value) *condObj {
	c := w.sched.conds[p]
	if c == nil {
		c = &condObj{}
		w.sched.conds[p] = c
	}
	return c
}

type wgObj struct {
	n     int64
	waitq []*goroutine
}

func (w *world) wgOf(p *value) *wgObj {
	g := w.sched.wgs[p]
	if g == nil {
		g = &wgObj{}
		w.sched.wgs[p] = g
	}
	return g
}

type onceObj struct {
	done    bool
	running bool
	waitq   []*goroutine
}

func (w *world) onceOf(p *value) *onceObj {
	o := w.sched.onces[p]
	if o == nil {
		o = &onceObj{}
		w.sched.onces[p] = o
	}
	return o
}
