package interp

// Program: the loaded SSA program, package initialisation (selective), the
// post-init heap snapshot and its per-path lazy cloning, and the function
// dispatch table (natives, stubs, unsupported).

import (
	"fmt"
	"go/types"
	"sort"
	"strings"
	"sync"
	"sync/atomic"
	"unsafe"

	"golang.org/x/tools/go/ssa"
)

// RunConfig carries the bounds of one exploration.
type RunConfig struct {
	MaxSteps        int64
	MaxDepth        int
	MaxConcretize   int
	MaxPaths        int
	MaxDecisions    int
	Preempt         int
	SchedAll        bool
	TickerBudget    int
	Workers         int
	SolverTimeoutMs int
	Solver          string
	Witness         bool
	Seed            int64
	Samples         int
	StopAfterViol   int
	MaxWallS        int
	IntEncoding     bool
	LabelPrefix     string
	Params          map[string]int64 // harness parameters (verifrt.Param)
}

func (c *RunConfig) fill() {
	if c.MaxSteps == 0 {
		c.MaxSteps = 5_000_000
	}
	if c.MaxDepth == 0 {
		c.MaxDepth = 400
	}
	if c.MaxConcretize == 0 {
		c.MaxConcretize = 24
	}
	if c.MaxPaths == 0 {
		c.MaxPaths = 200000
	}
	if c.MaxDecisions == 0 {
		c.MaxDecisions = 4000
	}
	if c.TickerBudget == 0 {
		c.TickerBudget = 2
	}
	if c.Workers == 0 {
		c.Workers = 8
	}
	if c.SolverTimeoutMs == 0 {
		c.SolverTimeoutMs = 10000
	}
	if c.Solver == "" {
		c.Solver = "z3"
	}
	if c.Samples == 0 {
		c.Samples = 3
	}
	if c.StopAfterViol == 0 {
		c.StopAfterViol = 3
	}
}

type fnInfo struct {
	name        string
	ext         externalFn
	stubZero    bool
	unsupported string
	skipInit    bool
	isInit      bool
	nvals       int
	pkgPath     string
}

type Program struct {
	prog               *ssa.Program
	runtimeErrorString types.Type
	errorsErrorString  *types.Named
	fmtWrapError       *types.Named

	infoMu sync.RWMutex
	infos  map[*ssa.Function]*fnInfo

	snapMu   sync.Mutex
	snapshot map[*ssa.Global]*value
	interior map[*value]*value // interior cell -> root cell (snapshot heap)
	sharedPtr map[*value]bool
	sharedMap map[*omap]bool

	InitsRun     []string
	InitsSkipped []string
	InitsPartial []string
	initSkipped  map[*ssa.Package]bool

	reflectPackage *ssa.Package
	rtypeMethods   map[string]*ssa.Function

	knownFindings map[string]string // id -> status
	assertQueries int64
	Verbose       bool
}

func (p *Program) countAssertQuery() { atomic.AddInt64(&p.assertQueries, 1) }

func (p *Program) kfKnown(id string) bool { return p.knownFindings[id] == "known" }

// SetKnownFindings installs the known-findings table (id -> "known"|"fixed").
func (p *Program) SetKnownFindings(m map[string]string) { p.knownFindings = m }

func NewProgram(prog *ssa.Program) *Program {
	p := &Program{
		prog:        prog,
		infos:       make(map[*ssa.Function]*fnInfo),
		snapshot:    make(map[*ssa.Global]*value),
		initSkipped: make(map[*ssa.Package]bool),
	}
	if rt := prog.ImportedPackage("runtime"); rt != nil {
		p.runtimeErrorString = rt.Type("errorString").Object().Type()
	}
	if ep := prog.ImportedPackage("errors"); ep != nil {
		p.errorsErrorString = ep.Type("errorString").Object().Type().(*types.Named)
	}
	if fp := prog.ImportedPackage("fmt"); fp != nil {
		if t := fp.Type("wrapError"); t != nil {
			p.fmtWrapError = t.Object().Type().(*types.Named)
		}
	}
	p.initReflect()
	return p
}

// SetEmbed pre-loads a //go:embed variable (string or []byte).
func (p *Program) SetEmbed(pkgPath, name string, data []byte) {
	for _, pkg := range p.prog.AllPackages() {
		if pkg.Pkg.Path() != pkgPath {
			continue
		}
		g, ok := pkg.Members[name].(*ssa.Global)
		if !ok {
			return
		}
		c := p.snapCell(g)
		switch t := mustDeref(g.Type()).Underlying().(type) {
		case *types.Basic:
			if t.Info()&types.IsString != 0 {
				*c = string(data)
			}
		case *types.Slice:
			*c = valuesOfBytes(data)
		}
	}
}

// funcPkgPath returns the import path of the package a function belongs to
// (receiver's package for methods and wrappers, parent's for closures).
func funcPkgPath(fn *ssa.Function) string {
	for f := fn; f != nil; f = f.Parent() {
		if f.Pkg != nil {
			return f.Pkg.Pkg.Path()
		}
		if f.Origin() != nil && f.Origin().Pkg != nil {
			return f.Origin().Pkg.Pkg.Path()
		}
		if recv := f.Signature.Recv(); recv != nil {
			t := recv.Type()
			if pt, ok := t.(*types.Pointer); ok {
				t = pt.Elem()
			}
			if n, ok := types.Unalias(t).(*types.Named); ok && n.Obj().Pkg() != nil {
				return n.Obj().Pkg().Path()
			}
		}
		if obj := f.Object(); obj != nil && obj.Pkg() != nil {
			return obj.Pkg().Path()
		}
	}
	return ""
}

// stubPrefixes: every function of these packages returns zero values.
var stubPrefixes = []string{
	"github.com/ipfs/go-log",
	"go.uber.org/zap",
	"go.uber.org/multierr",
	"go.opentelemetry.io/otel",
}

// noopIfacePrefixes: methods invoked on nil interfaces declared in these
// packages are no-ops.
var noopIfacePrefixes = []string{
	"go.opentelemetry.io/otel",
}

func hasPrefixIn(path string, prefixes []string) bool {
	for _, p := range prefixes {
		if path == p || strings.HasPrefix(path, p+"/") || strings.HasPrefix(path, p+"@") {
			return true
		}
	}
	return false
}

func (p *Program) isNoopIfacePkg(path string) bool { return hasPrefixIn(path, noopIfacePrefixes) }

// unsupportedPkgs: entering a function of these packages ends the path as
// UNSUPPORTED (unless a native is registered for the function).
var unsupportedPkgs = []string{
	"reflect", "unsafe", "syscall", "os", "net", "runtime", "internal/reflectlite",
	"github.com/libp2p/go-libp2p",
}

// initAllow: packages whose init functions are executed.
var initAllowPrefixes = []string{
	"github.com/ipfs/go-graphsync",
	"github.com/ipfs/go-ipfs-pq",
	"github.com/ipfs/go-peertaskqueue",
	"github.com/hannahhoward/go-pubsub",
	"github.com/ipfs/go-block-format",
	"github.com/ipfs/go-cid",
	"github.com/ipld/go-ipld-prime",
	"github.com/multiformats/go-multihash",
	"github.com/multiformats/go-varint",
	"github.com/multiformats/go-multibase",
	"github.com/multiformats/go-base32",
	"github.com/multiformats/go-base36",
	"github.com/mr-tron/base58",
	"github.com/google/uuid",
	"github.com/libp2p/go-msgio",
	"github.com/libp2p/go-buffer-pool",
	"github.com/polydawn/refmt/shared",
	"github.com/polydawn/refmt/cbor",
	"github.com/polydawn/refmt/tok",
}

var initDenyPrefixes = []string{
	"github.com/ipld/go-ipld-prime/codec/dagjson",
	"github.com/ipld/go-ipld-prime/codec/json",
	"github.com/ipld/go-ipld-prime/multicodec",
	"github.com/ipfs/go-graphsync/testutil",
}

var initAllowStd = map[string]bool{
	"io": true, "bytes": true, "context": true, "strconv": true, "errors": true,
	"sort": true, "strings": true, "sync": true, "unicode": true, "unicode/utf8": true,
	"unicode/utf16": true, "math": true, "math/bits": true, "encoding/binary": true,
	"encoding/hex": true, "encoding/base32": true, "encoding/base64": true, "bufio": true,
	"container/heap": true, "container/list": true, "slices": true, "maps": true, "cmp": true,
	"iter": true, "hash": true, "path": true, "io/fs": true, "internal/oserror": true,
	"sync/atomic": true, "math/big": true, "encoding": true, "internal/bytealg": true,
	"internal/stringslite": true, "internal/itoa": true, "unique": false,
}

func (p *Program) initAllowed(path string) bool {
	if hasPrefixIn(path, initDenyPrefixes) {
		return false
	}
	if hasPrefixIn(path, initAllowPrefixes) {
		return true
	}
	return initAllowStd[path]
}

// sharedGlobalsPkg: globals of these packages are never written after init
// and are shared between paths without cloning.
func sharedGlobalsPkg(path string) bool {
	return !strings.Contains(path, ".") // standard library
}

func (p *Program) fnInfo(fn *ssa.Function) *fnInfo {
	p.infoMu.RLock()
	info := p.infos[fn]
	p.infoMu.RUnlock()
	if info != nil {
		return info
	}
	info = &fnInfo{name: fn.String()}
	info.pkgPath = funcPkgPath(fn)
	name := info.name
	if o := fn.Origin(); o != nil {
		name = o.String()
	}
	if ext := externals[name]; ext != nil {
		info.ext = ext
	} else if ext := externals[info.name]; ext != nil {
		info.ext = ext
	} else if fn.Synthetic == "package initializer" {
		info.isInit = true
		if !p.initAllowed(info.pkgPath) {
			info.skipInit = true
		}
	} else if hasPrefixIn(info.pkgPath, stubPrefixes) {
		info.stubZero = true
	} else if hasPrefixIn(info.pkgPath, unsupportedPkgs) {
		info.unsupported = "function of unsupported package"
	}
	n := 0
	for _, b := range fn.Blocks {
		n += len(b.Instrs)
	}
	info.nvals = n/2 + len(fn.Params) + len(fn.FreeVars) + 4
	p.infoMu.Lock()
	p.infos[fn] = info
	p.infoMu.Unlock()
	return info
}

// stubResult builds the result of a stubbed function: zero values, except
// that pointer-to-struct results are fresh zero structs (so promoted-method
// wrappers on them do not fault) and context results pass an argument through.
func (p *Program) stubResult(fn *ssa.Function, args []value) value {
	res := fn.Signature.Results()
	mk := func(t types.Type) value {
		if isContextType(t) {
			return zeroOrPass(t, args)
		}
		if pt, ok := t.Underlying().(*types.Pointer); ok {
			if _, ok := pt.Elem().Underlying().(*types.Struct); ok {
				v := zero(pt.Elem())
				return &v
			}
		}
		return zero(t)
	}
	switch res.Len() {
	case 0:
		return nil
	case 1:
		return mk(res.At(0).Type())
	}
	t := make(tuple, res.Len())
	for i := range t {
		t[i] = mk(res.At(i).Type())
	}
	return t
}

func (p *Program) lookupMethodByName(t types.Type, name string) *ssa.Function {
	ms := p.prog.MethodSets.MethodSet(t)
	for i := 0; i < ms.Len(); i++ {
		sel := ms.At(i)
		if sel.Obj().Name() == name {
			return p.prog.MethodValue(sel)
		}
	}
	return nil
}

// ---------------------------------------------------------------------
// Globals: snapshot after init, lazily cloned per path.

func (p *Program) snapCell(g *ssa.Global) *value {
	p.snapMu.Lock()
	defer p.snapMu.Unlock()
	c := p.snapshot[g]
	if c == nil {
		v := zero(mustDeref(g.Type()))
		c = &v
		p.snapshot[g] = c
	}
	return c
}

// isHarnessFn reports whether fn is harness code (a virtual zz_verif_ file):
// harness code may initialise a global of a package whose init was skipped.
func (p *Program) isHarnessFn(fn *ssa.Function) bool {
	for f := fn; f != nil; f = f.Parent() {
		if pos := f.Pos(); pos.IsValid() {
			name := p.prog.Fset.Position(pos).Filename
			return strings.Contains(name, "zz_verif_")
		}
	}
	return false
}

func (w *world) globalAddr(g *ssa.Global, from *ssa.Function) *value {
	if r, ok := w.globals[g]; ok {
		return r
	}
	snap := w.p.snapCell(g)
	var r *value
	if w.cloneMemo == nil || (g.Pkg != nil && sharedGlobalsPkg(g.Pkg.Pkg.Path())) {
		r = snap // init phase, or shared
	} else {
		if g.Pkg != nil && w.p.initSkipped[g.Pkg] && isNilLike(*snap) && !strings.HasSuffix(g.Name(), "init$guard") && !w.p.isHarnessFn(from) {
			panic(unsupported(fmt.Sprintf("read of global %s of a package whose init was not run", g)))
		}
		r = w.cloneCell(snap)
	}
	w.globals[g] = r
	return r
}

func isNilLike(v value) bool {
	switch v := v.(type) {
	case *value:
		return v == nil
	case iface:
		return v.t == nil
	case *omap:
		return v == nil
	case []value:
		return v == nil
	case *ssa.Function:
		return v == nil
	case *chanObj:
		return v == nil
	}
	return false
}

type sliceKey struct {
	p unsafe.Pointer
	c int
}

func (w *world) cloneCell(c *value) *value {
	if c == nil {
		return nil
	}
	if w.p.sharedPtr[c] {
		return c
	}
	if n, ok := w.cloneMemo[c]; ok {
		return n.(*value)
	}
	if root, ok := w.p.interior[c]; ok && root != c {
		w.cloneCell(root)
		if n, ok := w.cloneMemo[c]; ok {
			return n.(*value)
		}
	}
	n := new(value)
	w.cloneMemo[c] = n
	*n = w.cloneVal(*c)
	return n
}

// cloneAgg copies an aggregate's element storage, registering interior cells.
func (w *world) cloneAgg(src []value) []value {
	dst := make([]value, len(src), cap(src))
	for i := range src {
		w.cloneMemo[&src[i]] = &dst[i]
	}
	for i := range src {
		dst[i] = w.cloneVal(src[i])
	}
	return dst
}

func (w *world) cloneVal(v value) value {
	switch v := v.(type) {
	case *value:
		return w.cloneCell(v)
	case structure:
		return structure(w.cloneAgg(v))
	case array:
		return array(w.cloneAgg(v))
	case tuple:
		return tuple(w.cloneAgg(v))
	case []value:
		if v == nil {
			return v
		}
		full := v[:cap(v)]
		if len(full) == 0 {
			return make([]value, 0)
		}
		k := sliceKey{unsafe.Pointer(&full[0]), cap(v)}
		if n, ok := w.cloneMemo[k]; ok {
			return n.([]value)[:len(v)]
		}
		dst := make([]value, len(full))
		w.cloneMemo[k] = dst
		for i := range full {
			w.cloneMemo[&full[i]] = &dst[i]
		}
		for i := range full {
			dst[i] = w.cloneVal(full[i])
		}
		return dst[:len(v)]
	case iface:
		return iface{t: v.t, v: w.cloneVal(v.v)}
	case *omap:
		if v == nil || w.p.sharedMap[v] {
			return v
		}
		if n, ok := w.cloneMemo[v]; ok {
			return n.(*omap)
		}
		n := &omap{keyType: v.keyType}
		w.cloneMemo[v] = n
		for i := range v.ents {
			e := v.ents[i]
			if e.dead {
				continue
			}
			n.insert(w.cloneVal(e.key), w.cloneVal(e.val))
		}
		return n
	case *closure:
		if v == nil {
			return v
		}
		if n, ok := w.cloneMemo[v]; ok {
			return n.(*closure)
		}
		n := &closure{Fn: v.Fn}
		w.cloneMemo[v] = n
		n.Env = make([]value, len(v.Env))
		for i := range v.Env {
			n.Env[i] = w.cloneVal(v.Env[i])
		}
		return n
	case *chanObj:
		if v == nil {
			return v
		}
		if n, ok := w.cloneMemo[v]; ok {
			return n.(*chanObj)
		}
		n := &chanObj{id: v.id, cap: v.cap, closed: v.closed}
		w.cloneMemo[v] = n
		for _, b := range v.buf {
			n.buf = append(n.buf, w.cloneVal(b))
		}
		return n
	}
	return v
}

// buildSnapshotIndex walks the post-init heap: interior-cell index for the
// cloned part, shared-pointer index for the shared (standard library) part.
func (p *Program) buildSnapshotIndex() {
	p.interior = make(map[*value]*value)
	p.sharedPtr = make(map[*value]bool)
	p.sharedMap = make(map[*omap]bool)
	// shared part first
	seenS := make(map[any]bool)
	var walkShared func(v value)
	walkSharedCell := func(c *value) {}
	walkSharedCell = func(c *value) {
		if c == nil || p.sharedPtr[c] {
			return
		}
		p.sharedPtr[c] = true
		walkShared(*c)
	}
	walkShared = func(v value) {
		switch v := v.(type) {
		case *value:
			walkSharedCell(v)
		case structure:
			for i := range v {
				p.sharedPtr[&v[i]] = true
				walkShared(v[i])
			}
		case array:
			for i := range v {
				p.sharedPtr[&v[i]] = true
				walkShared(v[i])
			}
		case []value:
			if v == nil || cap(v) == 0 {
				return
			}
			full := v[:cap(v)]
			k := sliceKey{unsafe.Pointer(&full[0]), cap(v)}
			if seenS[k] {
				return
			}
			seenS[k] = true
			for i := range full {
				p.sharedPtr[&full[i]] = true
				walkShared(full[i])
			}
		case iface:
			walkShared(v.v)
		case *omap:
			if v == nil || p.sharedMap[v] {
				return
			}
			p.sharedMap[v] = true
			for i := range v.ents {
				walkShared(v.ents[i].key)
				walkShared(v.ents[i].val)
			}
		case *closure:
			if v == nil || seenS[v] {
				return
			}
			seenS[v] = true
			for _, e := range v.Env {
				walkShared(e)
			}
		}
	}
	var cloned []*value
	for g, c := range p.snapshot {
		if g.Pkg != nil && sharedGlobalsPkg(g.Pkg.Pkg.Path()) {
			walkSharedCell(c)
		} else {
			cloned = append(cloned, c)
		}
	}
	// interior index for the cloned part
	seen := make(map[any]bool)
	var walk func(v value, root *value)
	walkCell := func(c *value) {}
	walkCell = func(c *value) {
		if c == nil || seen[c] || p.sharedPtr[c] {
			return
		}
		seen[c] = true
		walk(*c, c)
	}
	walk = func(v value, root *value) {
		switch v := v.(type) {
		case *value:
			walkCell(v)
		case structure:
			for i := range v {
				if root != nil {
					p.interior[&v[i]] = root
				}
				seen[&v[i]] = true
				walk(v[i], root)
			}
		case array:
			for i := range v {
				if root != nil {
					p.interior[&v[i]] = root
				}
				seen[&v[i]] = true
				walk(v[i], root)
			}
		case []value:
			if v == nil || cap(v) == 0 {
				return
			}
			full := v[:cap(v)]
			k := sliceKey{unsafe.Pointer(&full[0]), cap(v)}
			if seen[k] {
				return
			}
			seen[k] = true
			for i := range full {
				walk(full[i], nil)
			}
		case iface:
			walk(v.v, root)
		case *omap:
			if v == nil || seen[v] || p.sharedMap[v] {
				return
			}
			seen[v] = true
			for i := range v.ents {
				walk(v.ents[i].key, nil)
				walk(v.ents[i].val, nil)
			}
		case *closure:
			if v == nil || seen[v] {
				return
			}
			seen[v] = true
			for _, e := range v.Env {
				walk(e, nil)
			}
		}
	}
	for _, c := range cloned {
		walkCell(c)
	}
}

// RunInit executes the package initialisers reachable from pkg (selectively)
// and freezes the resulting heap as the snapshot every path starts from.
func (p *Program) RunInit(pkgs []*ssa.Package) error {
	cfg := &RunConfig{}
	cfg.fill()
	cfg.MaxSteps = 2_000_000_000
	w := p.newWorld(cfg, "init", pathPrefix{}, nil)
	w.cloneMemo = nil // init phase: globals live in the snapshot itself
	var fns []value
	for _, pkg := range pkgs {
		fns = append(fns, pkg.Func("init"))
	}
	initAll := &nativeFn{name: "gosym:init", fn: func(fr *frame, _ []value) value {
		for _, f := range fns {
			call(fr.w, fr, 0, f, nil)
		}
		return nil
	}}
	out := w.run(initAll, nil)
	if out.kind != oDone {
		return fmt.Errorf("package initialisation failed: %s %s", out.kind, out.msg)
	}
	sort.Strings(p.InitsRun)
	sort.Strings(p.InitsSkipped)
	p.buildSnapshotIndex()
	return nil
}

// callInit wraps the execution of one package initialiser.
func (p *Program) callInit(fr *frame, fn *ssa.Function, info *fnInfo, run func()) {
	if info.skipInit {
		p.snapMu.Lock()
		if fn.Pkg != nil && !p.initSkipped[fn.Pkg] {
			p.initSkipped[fn.Pkg] = true
			p.InitsSkipped = append(p.InitsSkipped, info.pkgPath)
		}
		p.snapMu.Unlock()
		return
	}
	defer func() {
		if r := recover(); r != nil {
			pe, ok := r.(pathEnd)
			if ok && (pe.kind == oKilled || pe.kind == oEngine) {
				panic(r)
			}
			msg := fmt.Sprint(r)
			if ok {
				msg = pe.msg
			}
			if tp, ok := r.(targetPanic); ok {
				msg = "panic: " + toString(tp.v)
			}
			p.snapMu.Lock()
			p.InitsPartial = append(p.InitsPartial, info.pkgPath+": "+truncate(msg, 200))
			if fn.Pkg != nil {
				p.initSkipped[fn.Pkg] = true
			}
			p.snapMu.Unlock()
		}
	}()
	run()
	p.snapMu.Lock()
	p.InitsRun = append(p.InitsRun, info.pkgPath)
	p.snapMu.Unlock()
}
