package interp

// A world is the state of one explored path: heap (globals), path
// condition, decision trace, scheduler state.  Paths are explored by
// systematic replay: every path is executed from the harness entry with a
// decision prefix; new alternatives found beyond the prefix are pushed on a
// shared work-list.

import (
	"fmt"
	"go/types"
	"sort"
	"strings"

	"golang.org/x/tools/go/ssa"
)

type outcomeKind int

const (
	oDone outcomeKind = iota
	oViolation
	oInfeasible // an Assume failed on every value: path dropped
	oUnsupported
	oUnwind
	oCrash
	oBlocked // main goroutine blocked forever
	oKilled  // internal: goroutine torn down at path end
	oEngine  // internal engine error
)

func (k outcomeKind) String() string {
	return [...]string{"DONE", "VIOLATION", "ASSUME-DROPPED", "UNSUPPORTED", "UNWIND", "CRASH", "MAIN-BLOCKED", "KILLED", "ENGINE-ERROR"}[k]
}

// pathEnd is the panic value used to end a path from anywhere.
type pathEnd struct {
	kind outcomeKind
	msg  string
}

func unsupported(msg string) pathEnd { return pathEnd{oUnsupported, msg} }

// Violation describes a falsified assertion (or crash) with its witness.
type Violation struct {
	Kind    string            `json:"kind"`
	Label   string            `json:"label"`
	Msg     string            `json:"msg,omitempty"`
	KF      string            `json:"known_finding,omitempty"`
	Trace   []int             `json:"trace"`
	Model   map[string]uint64 `json:"model"`
	Nondet  []NondetRec       `json:"nondet"`
	Events  []string          `json:"events"`
	Entry   string            `json:"entry"`
	InKnown bool              `json:"in_known_region"`
}

// NondetRec is one nondeterministic input requested by the harness.
type NondetRec struct {
	Name  string `json:"name"`
	Kind  string `json:"kind"`
	Value uint64 `json:"value"`
	Sym   bool   `json:"symbolic"`
	term  *term
}

type world struct {
	p       *Program
	cfg     *RunConfig
	entry   string
	globals map[*ssa.Global]*value
	cloneMemo map[any]any

	tt      *termTable
	sol     *solver
	defined map[*term]bool
	pc      []*term
	pcSet   map[*term]bool

	prefix  pathPrefix
	pos     int
	cpos    int
	trace   []int
	ctrace  []uint64
	newAlts []pathPrefix

	nondet  []NondetRec
	events  []string
	covers  map[string]bool
	kfSeen  map[string]string
	assumesDropped int

	steps   int64
	depth   int
	outcome pathEnd
	viol    *Violation
	feasUnknown int

	sched   scheduler
	fnsSeen map[*ssa.Function]bool
	natives map[string]bool
	stubs   map[string]value
	pools   map[*value][]value // sync.Pool contents (LIFO), keyed by the pool's address
	counter int64 // monotone virtual clock / fresh ids
}

// ---------------------------------------------------------------------
// Solver plumbing

func (w *world) ensureDefs(t *term) {
	if t.op == "const" {
		return
	}
	if w.defined[t] {
		return
	}
	for _, a := range t.args {
		w.ensureDefs(a)
	}
	w.defined[t] = true
	if w.cfg.IntEncoding {
		if t.op == "var" {
			w.sol.send(fmt.Sprintf("(declare-const %s %s)", t.name, sortOfInt(t.w)))
			if t.w > 0 {
				w.sol.send(fmt.Sprintf("(assert (and (<= 0 %s) (< %s %s)))", t.name, t.name, pow2(t.w)))
			}
			return
		}
		b, ok := t.bodyInt()
		if !ok {
			panic(unsupported("term not expressible in the integer encoding: " + truncate(t.String(), 200)))
		}
		w.sol.send(fmt.Sprintf("(define-fun t%d () %s %s)", t.id, sortOfInt(t.w), b))
		return
	}
	if t.op == "var" {
		w.sol.send(fmt.Sprintf("(declare-const %s %s)", t.name, sortOf(t.w)))
		return
	}
	w.sol.send(fmt.Sprintf("(define-fun t%d () %s %s)", t.id, sortOf(t.w), t.body()))
}

func (w *world) tref(t *term) string {
	if w.cfg.IntEncoding {
		return t.refInt()
	}
	return t.ref()
}

// feasible asks whether pc ∧ t is satisfiable: "sat", "unsat", "unknown".
func (w *world) feasible(t *term) string {
	if t.isConst() {
		if t.val == 1 {
			return "sat"
		}
		return "unsat"
	}
	if w.pcSet[t] {
		w.sol.stats.CacheHits++
		return "sat"
	}
	if w.pcSet[w.tt.not(t)] {
		w.sol.stats.CacheHits++
		return "unsat"
	}
	w.ensureDefs(t)
	w.sol.send("(push)")
	w.sol.send("(assert " + w.tref(t) + ")")
	r := w.sol.checkSat()
	w.sol.send("(pop)")
	return r
}

func (w *world) assume(t *term) {
	if t.isConst() || w.pcSet[t] {
		return
	}
	w.ensureDefs(t)
	w.sol.send("(assert " + w.tref(t) + ")")
	w.pc = append(w.pc, t)
	w.pcSet[t] = true
}

// model returns a satisfying assignment of pc ∧ extra for all declared vars.
func (w *world) model(extra *term) (map[string]uint64, bool) {
	if extra != nil {
		w.ensureDefs(extra)
	}
	w.sol.send("(push)")
	if extra != nil {
		w.sol.send("(assert " + w.tref(extra) + ")")
	}
	r := w.sol.checkSat()
	var m map[string]uint64
	if r == "sat" {
		var vars []*term
		for _, v := range w.tt.vars {
			if w.defined[v] {
				vars = append(vars, v)
			}
		}
		m = w.sol.getValues(vars)
	}
	w.sol.send("(pop)")
	return m, r == "sat"
}

// ---------------------------------------------------------------------
// Choice points

// pathPrefix identifies a path: the alternative taken at every choice point
// and the concrete values picked by concretize (so replay does not depend on
// which model the solver happens to return).
type pathPrefix struct {
	Alts  []int
	Cvals []uint64
}

func (w *world) pushAlt(alt int) {
	p := pathPrefix{Alts: make([]int, len(w.trace)+1), Cvals: append([]uint64(nil), w.ctrace...)}
	copy(p.Alts, w.trace)
	p.Alts[len(w.trace)] = alt
	w.newAlts = append(w.newAlts, p)
}

// choice is an n-way choice point all of whose alternatives are feasible.
func (w *world) choice(n int) int {
	if n <= 1 {
		return 0
	}
	a := 0
	if w.pos < len(w.prefix.Alts) {
		a = w.prefix.Alts[w.pos]
		if a >= n {
			panic(pathEnd{oEngine, fmt.Sprintf("replay divergence: alt %d of %d at pos %d", a, n, w.pos)})
		}
	} else {
		for alt := n - 1; alt >= 1; alt-- {
			w.pushAlt(alt)
		}
	}
	w.trace = append(w.trace, a)
	w.pos++
	return a
}

// decide turns a symbolic boolean into a concrete branch decision.
func (w *world) decide(t *term) bool {
	if t.isConst() {
		return t.val == 1
	}
	if w.pcSet[t] {
		return true
	}
	nt := w.tt.not(t)
	if w.pcSet[nt] {
		return false
	}
	if w.pos < len(w.prefix.Alts) {
		a := w.prefix.Alts[w.pos]
		w.trace = append(w.trace, a)
		w.pos++
		if a == 0 {
			w.assume(t)
			return true
		}
		w.assume(nt)
		return false
	}
	ft := w.feasible(t)
	ff := w.feasible(nt)
	if ft == "unknown" || ff == "unknown" {
		w.feasUnknown++
	}
	okT, okF := ft != "unsat", ff != "unsat"
	switch {
	case okT && okF:
		w.pushAlt(1)
		w.trace = append(w.trace, 0)
		w.pos++
		w.assume(t)
		return true
	case okT:
		w.trace = append(w.trace, 0)
		w.pos++
		w.assume(t)
		return true
	case okF:
		w.trace = append(w.trace, 1)
		w.pos++
		w.assume(nt)
		return false
	}
	panic(pathEnd{oInfeasible, "path condition unsatisfiable"})
}

// concretize returns a concrete value for symbolic s, forking over all
// feasible values (at most cfg.MaxConcretize of them).
func (w *world) concretize(s sym) value {
	for n := 0; ; n++ {
		if n >= w.cfg.MaxConcretize {
			panic(unsupported("concretisation of a symbolic value needs more than the allowed number of forks"))
		}
		var v uint64
		if w.cpos < len(w.prefix.Cvals) {
			v = w.prefix.Cvals[w.cpos]
		} else {
			m, ok := w.model(nil)
			if !ok {
				panic(pathEnd{oInfeasible, "path condition unsatisfiable in concretize"})
			}
			v = w.evalModel(s.t, m)
		}
		w.cpos++
		w.ctrace = append(w.ctrace, v)
		eq := w.tt.eq(s.t, w.tt.konst(s.t.w, v))
		if w.decide(eq) {
			return concreteOfKind(s.k, v)
		}
	}
}

// evalModel evaluates term t under model m (unassigned vars are 0).
func (w *world) evalModel(t *term, m map[string]uint64) uint64 {
	memo := make(map[*term]uint64)
	var ev func(t *term) uint64
	ev = func(t *term) uint64 {
		if v, ok := memo[t]; ok {
			return v
		}
		var r uint64
		switch t.op {
		case "const":
			r = t.val
		case "var":
			r = m[t.name]
		case "not":
			r = ev(t.args[0]) ^ 1
		case "and":
			r = ev(t.args[0]) & ev(t.args[1])
		case "or":
			r = ev(t.args[0]) | ev(t.args[1])
		case "ite":
			if ev(t.args[0]) == 1 {
				r = ev(t.args[1])
			} else {
				r = ev(t.args[2])
			}
		case "=":
			if ev(t.args[0]) == ev(t.args[1]) {
				r = 1
			}
		case "bvult", "bvule", "bvslt", "bvsle":
			c := w.tt.cmp(t.op, w.tt.konst(t.args[0].w, ev(t.args[0])), w.tt.konst(t.args[1].w, ev(t.args[1])))
			r = c.val
		case "bvnot":
			r = ^ev(t.args[0]) & mask(t.w)
		case "bvneg":
			r = -ev(t.args[0]) & mask(t.w)
		case "extract":
			r = ev(t.args[0]) & mask(t.w)
		case "zext":
			r = ev(t.args[0])
		case "sext":
			r = uint64(signExt(ev(t.args[0]), t.args[0].w)) & mask(t.w)
		default:
			a, b := w.tt.konst(t.args[0].w, ev(t.args[0])), w.tt.konst(t.args[1].w, ev(t.args[1]))
			c := w.tt.bin(t.op, a, b)
			if !c.isConst() {
				// division by zero under a don't-care model: SMT-LIB total semantics
				switch t.op {
				case "bvudiv":
					r = mask(t.w)
				case "bvurem", "bvsrem":
					r = a.val
				case "bvsdiv":
					if signExt(a.val, a.w) < 0 {
						r = 1
					} else {
						r = mask(t.w)
					}
				}
			} else {
				r = c.val
			}
		}
		memo[t] = r
		return r
	}
	return ev(t)
}

// concreteBool forces a (possibly symbolic) bool to a concrete one.
func (w *world) concreteBool(v value) bool {
	if s, ok := v.(sym); ok {
		return s.w.decide(s.t)
	}
	return v.(bool)
}

// concrete forces any scalar to a concrete value.
func concrete(v value) value {
	if s, ok := v.(sym); ok {
		if s.k == types.Bool {
			return s.w.decide(s.t)
		}
		return s.w.concretize(s)
	}
	return v
}

// ---------------------------------------------------------------------
// Nondeterministic inputs, assertions, events

func (w *world) freshVar(name string, k types.BasicKind) value {
	// make names unique per call sequence
	n := 0
	for _, r := range w.nondet {
		if r.Name == name || strings.HasPrefix(r.Name, name+"#") {
			n++
		}
	}
	full := name
	if n > 0 {
		full = fmt.Sprintf("%s#%d", name, n)
	}
	smt := "v_" + sanitize(full)
	t := w.tt.variable(smt, kindWidth(k))
	w.nondet = append(w.nondet, NondetRec{Name: full, Kind: types.Typ[k].Name(), Sym: true, term: t})
	return sym{w: w, k: k, t: t}
}

func sanitize(s string) string {
	var sb strings.Builder
	for _, c := range s {
		switch {
		case c >= 'a' && c <= 'z', c >= 'A' && c <= 'Z', c >= '0' && c <= '9', c == '_':
			sb.WriteRune(c)
		case c == '#':
			sb.WriteString("__")
		default:
			sb.WriteString("_")
		}
	}
	return sb.String()
}

func (w *world) recordChoice(name string, n int, v int) {
	cnt := 0
	for _, r := range w.nondet {
		if r.Name == name || strings.HasPrefix(r.Name, name+"#") {
			cnt++
		}
	}
	full := name
	if cnt > 0 {
		full = fmt.Sprintf("%s#%d", name, cnt)
	}
	w.nondet = append(w.nondet, NondetRec{Name: full, Kind: fmt.Sprintf("choose%d", n), Value: uint64(v)})
}

func (w *world) event(s string) {
	if len(w.events) < 4000 {
		w.events = append(w.events, s)
	}
}

// fillNondet stores model values into the nondet records.
func (w *world) fillNondet(m map[string]uint64) []NondetRec {
	out := make([]NondetRec, len(w.nondet))
	copy(out, w.nondet)
	for i := range out {
		if out[i].Sym {
			out[i].Value = w.evalModel(out[i].term, m)
		}
	}
	return out
}

func (w *world) violation(kind, label, msg string, notCond *term) {
	m, ok := w.model(notCond)
	if !ok && notCond != nil {
		// solver said sat for the assertion query but not now: inconclusive
		panic(pathEnd{oEngine, "model extraction failed for violation " + label})
	}
	tr := make([]int, len(w.trace))
	copy(tr, w.trace)
	ev := make([]string, len(w.events))
	copy(ev, w.events)
	w.viol = &Violation{Kind: kind, Label: label, Msg: msg, Trace: tr, Model: m, Nondet: w.fillNondet(m), Events: ev, Entry: w.entry}
	panic(pathEnd{oViolation, label + ": " + msg})
}

// assert checks cond under the path condition.  If it can be false the path
// ends as a violation with a model; otherwise execution continues.
func (w *world) assert(cond value, label string) {
	if w.skipLabel(label) {
		return
	}
	switch c := cond.(type) {
	case bool:
		if !c {
			w.violation("assert", label, "assertion false on this path", nil)
		}
	case sym:
		nt := w.tt.not(c.t)
		r := w.feasible(nt)
		w.p.countAssertQuery()
		switch r {
		case "sat":
			w.violation("assert", label, "assertion falsifiable: "+truncate(c.t.String(), 300), nt)
		case "unknown":
			panic(pathEnd{oEngine, "solver unknown on assertion " + label})
		}
	default:
		panic(pathEnd{oEngine, fmt.Sprintf("assert on %T", cond)})
	}
}

// assertKF is assert with a known-finding region: failures inside region are
// reported as the known finding kf (if listed as known), failures outside it
// are violations.
func (w *world) assertKF(cond value, label, kf string, region value) {
	if w.skipLabel(label) {
		return
	}
	var ct, rt *term
	switch c := cond.(type) {
	case bool:
		ct = w.tt.boolc(c)
	case sym:
		ct = c.t
	}
	switch r := region.(type) {
	case bool:
		rt = w.tt.boolc(r)
	case sym:
		rt = r.t
	}
	nt := w.tt.not(ct)
	w.p.countAssertQuery()
	// outside the region: a plain violation
	out := w.tt.and(nt, w.tt.not(rt))
	switch w.feasible(out) {
	case "sat":
		w.violation("assert", label, "assertion falsifiable outside known-finding region "+kf, out)
	case "unknown":
		panic(pathEnd{oEngine, "solver unknown on assertion " + label})
	}
	in := w.tt.and(nt, rt)
	switch w.feasible(in) {
	case "sat":
		if w.p.kfKnown(kf) {
			if w.kfSeen == nil {
				w.kfSeen = map[string]string{}
			}
			w.kfSeen[kf] = label
			// continue on the part of the path where the assertion holds,
			// if any; otherwise end the path quietly.
			if w.feasible(ct) == "unsat" {
				panic(pathEnd{oDone, "known finding " + kf})
			}
			w.assume(ct)
			return
		}
		v := in
		w.violationKF(label, kf, v)
	case "unknown":
		panic(pathEnd{oEngine, "solver unknown on assertion " + label})
	}
}

func (w *world) violationKF(label, kf string, t *term) {
	defer func() {
		if w.viol != nil {
			w.viol.KF = kf
			w.viol.InKnown = true
		}
	}()
	w.violation("assert", label, "assertion falsifiable inside region of "+kf+" which is not listed as known", t)
}

// skipLabel: an assertion labelled for another property ("Cnn...") is not
// checked when the run is restricted to one property.
func (w *world) skipLabel(label string) bool {
	p := w.cfg.LabelPrefix
	if p == "" || len(label) < 3 || label[0] != 'C' || label[1] < '0' || label[1] > '9' || label[2] < '0' || label[2] > '9' {
		return false
	}
	// a label may name several properties: "C03/C24 text"
	ids := label
	if i := strings.IndexByte(label, ' '); i >= 0 {
		ids = label[:i]
	}
	for _, id := range strings.Split(ids, "/") {
		if id == p {
			return false
		}
	}
	return true
}

func truncate(s string, n int) string {
	if len(s) > n {
		return s[:n] + "…"
	}
	return s
}

func sortedKeys(m map[string]bool) []string {
	var ks []string
	for k := range m {
		ks = append(ks, k)
	}
	sort.Strings(ks)
	return ks
}
