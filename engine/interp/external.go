package interp

// Native implementations ("environment stubs") of functions that cannot be
// interpreted from SSA because they bottom out in assembly, unsafe, reflect
// or the runtime — and the scheduler-visible sync/time primitives.
// Keys are ssa.Function.String() (of the generic origin for instantiations).

import (
	"fmt"
	"go/token"
	"go/types"
	"math"
	"sort"
	"strconv"
	"strings"
	"unicode/utf8"
	"unsafe"

	"golang.org/x/tools/go/ssa"
)

type externalFn func(fr *frame, args []value) value

var externals = make(map[string]externalFn)

func reg(name string, fn externalFn) { externals[name] = fn }

func bytesOf(v value) []byte {
	x := v.([]value)
	b := make([]byte, len(x))
	for i := range x {
		b[i] = concrete(x[i]).(byte)
	}
	return b
}

func valuesOfBytes(b []byte) []value {
	if b == nil {
		return nil
	}
	r := make([]value, len(b))
	for i := range b {
		r[i] = b[i]
	}
	return r
}

func fieldPtr(p *value, i int) *value { return &(*p).(structure)[i] }

func nop(fr *frame, args []value) value { return nil }

func init() {
	// ---- internal/bytealg (assembly) ----
	reg("internal/bytealg.IndexByte", func(fr *frame, a []value) value {
		c := concrete(a[1]).(byte)
		for i, b := range a[0].([]value) {
			if concrete(b).(byte) == c {
				return i
			}
		}
		return -1
	})
	reg("internal/bytealg.IndexByteString", func(fr *frame, a []value) value {
		return strings.IndexByte(a[0].(string), concrete(a[1]).(byte))
	})
	reg("internal/bytealg.Count", func(fr *frame, a []value) value {
		c := concrete(a[1]).(byte)
		n := 0
		for _, b := range a[0].([]value) {
			if concrete(b).(byte) == c {
				n++
			}
		}
		return n
	})
	reg("internal/bytealg.CountString", func(fr *frame, a []value) value {
		return strings.Count(a[0].(string), string([]byte{concrete(a[1]).(byte)}))
	})
	reg("internal/bytealg.Compare", func(fr *frame, a []value) value {
		return strings.Compare(string(bytesOf(a[0])), string(bytesOf(a[1])))
	})
	reg("internal/bytealg.CompareString", func(fr *frame, a []value) value {
		return strings.Compare(a[0].(string), a[1].(string))
	})
	reg("internal/bytealg.Equal", func(fr *frame, a []value) value {
		return string(bytesOf(a[0])) == string(bytesOf(a[1]))
	})
	reg("internal/bytealg.Index", func(fr *frame, a []value) value {
		return strings.Index(string(bytesOf(a[0])), string(bytesOf(a[1])))
	})
	reg("internal/bytealg.IndexString", func(fr *frame, a []value) value {
		return strings.Index(a[0].(string), a[1].(string))
	})
	reg("internal/bytealg.LastIndexByte", func(fr *frame, a []value) value {
		return strings.LastIndexByte(string(bytesOf(a[0])), concrete(a[1]).(byte))
	})
	reg("internal/bytealg.LastIndexByteString", func(fr *frame, a []value) value {
		return strings.LastIndexByte(a[0].(string), concrete(a[1]).(byte))
	})
	reg("internal/bytealg.MakeNoZero", func(fr *frame, a []value) value {
		n := int(asInt64(a[0]))
		r := make([]value, n)
		for i := range r {
			r[i] = byte(0)
		}
		return r
	})
	reg("internal/stringslite.Index", func(fr *frame, a []value) value {
		return strings.Index(a[0].(string), a[1].(string))
	})
	reg("strings.Index", func(fr *frame, a []value) value { return strings.Index(a[0].(string), a[1].(string)) })
	reg("strings.IndexByte", func(fr *frame, a []value) value {
		return strings.IndexByte(a[0].(string), concrete(a[1]).(byte))
	})
	reg("strings.Count", func(fr *frame, a []value) value { return strings.Count(a[0].(string), a[1].(string)) })
	reg("strings.EqualFold", func(fr *frame, a []value) value { return strings.EqualFold(a[0].(string), a[1].(string)) })
	reg("strings.ToLower", func(fr *frame, a []value) value { return strings.ToLower(a[0].(string)) })
	reg("strings.ToUpper", func(fr *frame, a []value) value { return strings.ToUpper(a[0].(string)) })
	reg("strings.Replace", func(fr *frame, a []value) value {
		return strings.Replace(a[0].(string), a[1].(string), a[2].(string), a[3].(int))
	})
	reg("strings.Clone", func(fr *frame, a []value) value { return a[0] })
	reg("unique.Make", nil)
	delete(externals, "unique.Make")
	reg("bytes.Equal", func(fr *frame, a []value) value {
		x, y := a[0].([]value), a[1].([]value)
		if len(x) != len(y) {
			return false
		}
		for i := range x {
			if !equals(types.Typ[types.Uint8], x[i], y[i]) {
				return false
			}
		}
		return true
	})

	// ---- math ----
	reg("math.Float64frombits", func(fr *frame, a []value) value { return math.Float64frombits(concrete(a[0]).(uint64)) })
	reg("math.Float64bits", func(fr *frame, a []value) value { return math.Float64bits(a[0].(float64)) })
	reg("math.Float32frombits", func(fr *frame, a []value) value { return math.Float32frombits(concrete(a[0]).(uint32)) })
	reg("math.Float32bits", func(fr *frame, a []value) value { return math.Float32bits(a[0].(float32)) })
	reg("math.Abs", func(fr *frame, a []value) value { return math.Abs(a[0].(float64)) })
	reg("math.Copysign", func(fr *frame, a []value) value { return math.Copysign(a[0].(float64), a[1].(float64)) })
	reg("math.Exp", func(fr *frame, a []value) value { return math.Exp(a[0].(float64)) })
	reg("math.Min", func(fr *frame, a []value) value { return math.Min(a[0].(float64), a[1].(float64)) })
	reg("math.Max", func(fr *frame, a []value) value { return math.Max(a[0].(float64), a[1].(float64)) })
	reg("math.NaN", func(fr *frame, a []value) value { return math.NaN() })
	reg("math.IsNaN", func(fr *frame, a []value) value { return math.IsNaN(a[0].(float64)) })
	reg("math.IsInf", func(fr *frame, a []value) value { return math.IsInf(a[0].(float64), a[1].(int)) })
	reg("math.Inf", func(fr *frame, a []value) value { return math.Inf(a[0].(int)) })
	reg("math.Ldexp", func(fr *frame, a []value) value { return math.Ldexp(a[0].(float64), a[1].(int)) })
	reg("math.Log", func(fr *frame, a []value) value { return math.Log(a[0].(float64)) })
	reg("math.Log2", func(fr *frame, a []value) value { return math.Log2(a[0].(float64)) })
	reg("math.Sqrt", func(fr *frame, a []value) value { return math.Sqrt(a[0].(float64)) })
	reg("math.Floor", func(fr *frame, a []value) value { return math.Floor(a[0].(float64)) })
	reg("math.Ceil", func(fr *frame, a []value) value { return math.Ceil(a[0].(float64)) })
	reg("math.Trunc", func(fr *frame, a []value) value { return math.Trunc(a[0].(float64)) })
	reg("math.Pow", func(fr *frame, a []value) value { return math.Pow(a[0].(float64), a[1].(float64)) })
	reg("math.Modf", func(fr *frame, a []value) value {
		i, f := math.Modf(a[0].(float64))
		return tuple{i, f}
	})

	// ---- strconv / sort / utf8 (speed) ----
	reg("strconv.Itoa", func(fr *frame, a []value) value { return strconv.Itoa(concrete(a[0]).(int)) })
	reg("strconv.FormatInt", func(fr *frame, a []value) value {
		return strconv.FormatInt(concrete(a[0]).(int64), a[1].(int))
	})
	reg("strconv.FormatUint", func(fr *frame, a []value) value {
		return strconv.FormatUint(concrete(a[0]).(uint64), a[1].(int))
	})
	reg("strconv.FormatFloat", func(fr *frame, a []value) value {
		return strconv.FormatFloat(a[0].(float64), a[1].(byte), a[2].(int), a[3].(int))
	})
	reg("strconv.Quote", func(fr *frame, a []value) value { return strconv.Quote(a[0].(string)) })
	reg("sort.Ints", func(fr *frame, a []value) value {
		x := a[0].([]value)
		sort.Slice(x, func(i, j int) bool { return x[i].(int) < x[j].(int) })
		return nil
	})
	reg("sort.Strings", func(fr *frame, a []value) value {
		x := a[0].([]value)
		sort.Slice(x, func(i, j int) bool { return x[i].(string) < x[j].(string) })
		return nil
	})
	sortSlice := func(stable bool) externalFn {
		return func(fr *frame, a []value) value {
			itf := a[0].(iface)
			x, _ := itf.v.([]value)
			less := a[1]
			cmp := func(i, j int) bool {
				return fr.w.concreteBool(call(fr.w, fr, token.NoPos, less, []value{i, j}))
			}
			// insertion sort driven by index comparisons (less refers to
			// the live slice, so swap in place like reflect.Swapper).
			for i := 1; i < len(x); i++ {
				for j := i; j > 0 && cmp(j, j-1); j-- {
					x[j], x[j-1] = x[j-1], x[j]
				}
			}
			return nil
		}
	}
	reg("sort.Slice", sortSlice(false))
	reg("sort.SliceStable", sortSlice(true))
	reg("unicode/utf8.DecodeRuneInString", func(fr *frame, a []value) value {
		r, n := utf8.DecodeRuneInString(a[0].(string))
		return tuple{r, n}
	})

	// ---- runtime / os / debug ----
	reg("runtime.GOMAXPROCS", func(fr *frame, a []value) value { return 1 })
	reg("runtime.NumCPU", func(fr *frame, a []value) value { return 1 })
	reg("runtime.NumGoroutine", func(fr *frame, a []value) value { return 1 })
	reg("runtime.GC", nop)
	reg("runtime.KeepAlive", nop)
	reg("runtime.SetFinalizer", nop)
	reg("runtime.Gosched", func(fr *frame, a []value) value { fr.w.yield(); return nil })
	reg("runtime.Goexit", func(fr *frame, a []value) value { panic(unsupported("runtime.Goexit")) })
	reg("runtime.Caller", func(fr *frame, a []value) value { return tuple{uintptr(0), "", 0, false} })
	reg("runtime.Callers", func(fr *frame, a []value) value { return 0 })
	reg("runtime.Stack", func(fr *frame, a []value) value { return 0 })
	reg("runtime/debug.Stack", func(fr *frame, a []value) value { return valuesOfBytes([]byte("<stack>")) })
	reg("runtime/debug.PrintStack", nop)
	reg("os.Getenv", func(fr *frame, a []value) value { return "" })
	reg("os.LookupEnv", func(fr *frame, a []value) value { return tuple{"", false} })
	reg("os.Exit", func(fr *frame, a []value) value {
		panic(pathEnd{oCrash, fmt.Sprintf("os.Exit(%v)", a[0])})
	})
	reg("log.Printf", nop)
	reg("log.Println", nop)
	reg("log.Print", nop)

	// ---- sync ----
	reg("(*sync.Mutex).Lock", func(fr *frame, a []value) value { fr.w.lock(a[0].(*value)); return nil })
	reg("(*sync.Mutex).Unlock", func(fr *frame, a []value) value { fr.w.unlock(a[0].(*value)); return nil })
	reg("(*sync.Mutex).TryLock", func(fr *frame, a []value) value { return fr.w.tryLock(a[0].(*value)) })
	reg("(*sync.RWMutex).Lock", func(fr *frame, a []value) value { fr.w.lock(a[0].(*value)); return nil })
	reg("(*sync.RWMutex).Unlock", func(fr *frame, a []value) value { fr.w.unlock(a[0].(*value)); return nil })
	reg("(*sync.RWMutex).RLock", func(fr *frame, a []value) value { fr.w.rlock(a[0].(*value)); return nil })
	reg("(*sync.RWMutex).RUnlock", func(fr *frame, a []value) value { fr.w.runlock(a[0].(*value)); return nil })
	reg("(*sync.WaitGroup).Add", func(fr *frame, a []value) value {
		w := fr.w
		g := w.wgOf(a[0].(*value))
		g.n += asInt64(a[1])
		if g.n < 0 {
			panic(targetPanic{iface{t: types.Typ[types.String], v: "sync: negative WaitGroup counter"}})
		}
		if g.n == 0 {
			for _, x := range g.waitq {
				w.makeRunnable(x)
			}
			g.waitq = nil
		}
		return nil
	})
	reg("(*sync.WaitGroup).Done", func(fr *frame, a []value) value {
		return externals["(*sync.WaitGroup).Add"](fr, []value{a[0], int(-1)})
	})
	reg("(*sync.WaitGroup).Wait", func(fr *frame, a []value) value {
		w := fr.w
		w.maybePreempt()
		g := w.wgOf(a[0].(*value))
		if g.n == 0 {
			return nil
		}
		g.waitq = append(g.waitq, w.sched.cur)
		w.park("WaitGroup.Wait")
		return nil
	})
	reg("(*sync.WaitGroup).Go", func(fr *frame, a []value) value {
		w := fr.w
		externals["(*sync.WaitGroup).Add"](fr, []value{a[0], int(1)})
		f := a[1]
		wgp := a[0]
		w.spawn(&nativeFn{name: "wg.Go", fn: func(fr2 *frame, _ []value) value {
			defer externals["(*sync.WaitGroup).Add"](fr2, []value{wgp, int(-1)})
			call(fr2.w, fr2, token.NoPos, f, nil)
			return nil
		}}, nil, token.NoPos, false, "wg.Go")
		return nil
	})
	reg("(*sync.Once).Do", func(fr *frame, a []value) value {
		w := fr.w
		o := w.onceOf(a[0].(*value))
		if o.done {
			return nil
		}
		if o.running {
			o.waitq = append(o.waitq, w.sched.cur)
			w.park("Once.Do")
			return nil
		}
		o.running = true
		defer func() {
			o.running = false
			o.done = true
			for _, g := range o.waitq {
				w.makeRunnable(g)
			}
			o.waitq = nil
		}()
		call(w, fr, token.NoPos, a[1], nil)
		return nil
	})
	reg("(*sync.Cond).Wait", func(fr *frame, a []value) value {
		w := fr.w
		p := a[0].(*value)
		c := w.condOf(p)
		L := (*fieldPtr(p, 1)).(iface) // noCopy, L, notify, checker
		w.callMethod(fr, L, "Unlock")
		c.waitq = append(c.waitq, w.sched.cur)
		w.park("Cond.Wait")
		w.callMethod(fr, L, "Lock")
		return nil
	})
	reg("(*sync.Cond).Signal", func(fr *frame, a []value) value {
		w := fr.w
		c := w.condOf(a[0].(*value))
		if len(c.waitq) > 0 {
			g := c.waitq[0]
			c.waitq = c.waitq[1:]
			w.makeRunnable(g)
		}
		return nil
	})
	reg("(*sync.Cond).Broadcast", func(fr *frame, a []value) value {
		w := fr.w
		c := w.condOf(a[0].(*value))
		for _, g := range c.waitq {
			w.makeRunnable(g)
		}
		c.waitq = nil
		return nil
	})
	// sync.Pool: LIFO reuse per pool (one of the behaviours the runtime allows,
	// and the one that exposes objects returned to a pool in a dirty state or
	// used after Put); a pool with nothing cached calls New.
	reg("(*sync.Pool).Get", func(fr *frame, a []value) value {
		p := a[0].(*value)
		w := fr.w
		if items := w.pools[p]; len(items) > 0 {
			it := items[len(items)-1]
			w.pools[p] = items[:len(items)-1]
			return it
		}
		st := (*p).(structure)
		newFn := st[len(st)-1]
		if f, ok := newFn.(*ssa.Function); ok && f == nil {
			return iface{}
		}
		return call(fr.w, fr, token.NoPos, newFn, nil)
	})
	reg("(*sync.Pool).Put", func(fr *frame, a []value) value {
		p := a[0].(*value)
		w := fr.w
		if w.pools == nil {
			w.pools = map[*value][]value{}
		}
		if itf, ok := a[1].(iface); ok && itf.t == nil {
			return nil // Put(nil) is a no-op
		}
		w.pools[p] = append(w.pools[p], a[1])
		return nil
	})

	// ---- sync/atomic ----
	for _, k := range []string{"Int32", "Int64", "Uint32", "Uint64", "Uintptr"} {
		reg("sync/atomic.Load"+k, func(fr *frame, a []value) value { return *a[0].(*value) })
		reg("sync/atomic.Store"+k, func(fr *frame, a []value) value { *a[0].(*value) = a[1]; return nil })
		reg("sync/atomic.Add"+k, func(fr *frame, a []value) value {
			p := a[0].(*value)
			*p = binop(token.ADD, nil, *p, a[1])
			return *p
		})
		reg("sync/atomic.Swap"+k, func(fr *frame, a []value) value {
			p := a[0].(*value)
			old := *p
			*p = a[1]
			return old
		})
		reg("sync/atomic.CompareAndSwap"+k, func(fr *frame, a []value) value {
			p := a[0].(*value)
			if equals(nil, *p, a[1]) {
				*p = a[2]
				return true
			}
			return false
		})
		reg("sync/atomic.And"+k, func(fr *frame, a []value) value {
			p := a[0].(*value)
			old := *p
			*p = binop(token.AND, nil, *p, a[1])
			return old
		})
		reg("sync/atomic.Or"+k, func(fr *frame, a []value) value {
			p := a[0].(*value)
			old := *p
			*p = binop(token.OR, nil, *p, a[1])
			return old
		})
	}
	// atomic.Value: struct{ v any }
	reg("(*sync/atomic.Value).Load", func(fr *frame, a []value) value { return *fieldPtr(a[0].(*value), 0) })
	reg("(*sync/atomic.Value).Store", func(fr *frame, a []value) value {
		if a[1].(iface).t == nil {
			panic(targetPanic{iface{t: types.Typ[types.String], v: "sync/atomic: store of nil value into Value"}})
		}
		*fieldPtr(a[0].(*value), 0) = a[1]
		return nil
	})
	reg("(*sync/atomic.Value).Swap", func(fr *frame, a []value) value {
		p := fieldPtr(a[0].(*value), 0)
		old := *p
		*p = a[1]
		return old
	})
	reg("(*sync/atomic.Value).CompareAndSwap", func(fr *frame, a []value) value {
		p := fieldPtr(a[0].(*value), 0)
		if equals(types.NewInterfaceType(nil, nil), *p, a[1]) {
			*p = a[2]
			return true
		}
		return false
	})
	// atomic.Pointer[T]: struct{ _ [0]*T; _ noCopy; v unsafe.Pointer }
	ptrLoad := func(p *value) value {
		v := *fieldPtr(p, 2)
		if _, ok := v.(unsafe.Pointer); ok {
			return (*value)(nil)
		}
		return v
	}
	reg("(*sync/atomic.Pointer[T]).Load", func(fr *frame, a []value) value { return ptrLoad(a[0].(*value)) })
	reg("(*sync/atomic.Pointer[T]).Store", func(fr *frame, a []value) value {
		*fieldPtr(a[0].(*value), 2) = a[1]
		return nil
	})
	reg("(*sync/atomic.Pointer[T]).Swap", func(fr *frame, a []value) value {
		old := ptrLoad(a[0].(*value))
		*fieldPtr(a[0].(*value), 2) = a[1]
		return old
	})
	reg("(*sync/atomic.Pointer[T]).CompareAndSwap", func(fr *frame, a []value) value {
		if ptrLoad(a[0].(*value)).(*value) == a[1].(*value) {
			*fieldPtr(a[0].(*value), 2) = a[2]
			return true
		}
		return false
	})

	// ---- strings.Builder: struct{ addr *Builder; buf []byte } ----
	sbBuf := func(a []value) *value { return fieldPtr(a[0].(*value), 1) }
	reg("(*strings.Builder).String", func(fr *frame, a []value) value {
		b, _ := (*sbBuf(a)).([]value)
		return string(bytesOf(b))
	})
	reg("(*strings.Builder).Len", func(fr *frame, a []value) value {
		b, _ := (*sbBuf(a)).([]value)
		return len(b)
	})
	reg("(*strings.Builder).Cap", func(fr *frame, a []value) value {
		b, _ := (*sbBuf(a)).([]value)
		return cap(b)
	})
	reg("(*strings.Builder).Reset", func(fr *frame, a []value) value { *sbBuf(a) = []value(nil); return nil })
	reg("(*strings.Builder).Grow", nop)
	reg("(*strings.Builder).Write", func(fr *frame, a []value) value {
		p := sbBuf(a)
		b, _ := (*p).([]value)
		*p = append(b, a[1].([]value)...)
		return tuple{len(a[1].([]value)), iface{}}
	})
	reg("(*strings.Builder).WriteByte", func(fr *frame, a []value) value {
		p := sbBuf(a)
		b, _ := (*p).([]value)
		*p = append(b, a[1])
		return iface{}
	})
	reg("(*strings.Builder).WriteRune", func(fr *frame, a []value) value {
		p := sbBuf(a)
		b, _ := (*p).([]value)
		s := string(concrete(a[1]).(rune))
		*p = append(b, valuesOfBytes([]byte(s))...)
		return tuple{len(s), iface{}}
	})
	reg("(*strings.Builder).WriteString", func(fr *frame, a []value) value {
		p := sbBuf(a)
		b, _ := (*p).([]value)
		s := a[1].(string)
		*p = append(b, valuesOfBytes([]byte(s))...)
		return tuple{len(s), iface{}}
	})

	// ---- fmt ----
	reg("fmt.Sprintf", func(fr *frame, a []value) value {
		return fmt.Sprintf(a[0].(string), fr.w.fmtArgs(fr, a[1])...)
	})
	reg("fmt.Sprint", func(fr *frame, a []value) value { return fmt.Sprint(fr.w.fmtArgs(fr, a[0])...) })
	reg("fmt.Sprintln", func(fr *frame, a []value) value { return fmt.Sprintln(fr.w.fmtArgs(fr, a[0])...) })
	reg("fmt.Printf", func(fr *frame, a []value) value { return tuple{0, iface{}} })
	reg("fmt.Println", func(fr *frame, a []value) value { return tuple{0, iface{}} })
	reg("fmt.Print", func(fr *frame, a []value) value { return tuple{0, iface{}} })
	reg("fmt.Fprintf", func(fr *frame, a []value) value {
		s := fmt.Sprintf(a[1].(string), fr.w.fmtArgs(fr, a[2])...)
		return fr.w.writeTo(fr, a[0].(iface), s)
	})
	reg("fmt.Fprint", func(fr *frame, a []value) value {
		return fr.w.writeTo(fr, a[0].(iface), fmt.Sprint(fr.w.fmtArgs(fr, a[1])...))
	})
	reg("fmt.Fprintln", func(fr *frame, a []value) value {
		return fr.w.writeTo(fr, a[0].(iface), fmt.Sprintln(fr.w.fmtArgs(fr, a[1])...))
	})
	reg("fmt.Errorf", func(fr *frame, a []value) value {
		w := fr.w
		format := a[0].(string)
		raw, _ := a[1].([]value)
		msg := fmt.Sprintf(strings.ReplaceAll(format, "%w", "%v"), w.fmtArgs(fr, a[1])...)
		// find the operand of the first %w
		if idx := wrapVerbIndex(format); idx >= 0 && idx < len(raw) && w.p.fmtWrapError != nil {
			if e, ok := raw[idx].(iface); ok && e.t != nil {
				st := value(structure{msg, e})
				return iface{t: types.NewPointer(w.p.fmtWrapError), v: &st}
			}
		}
		return w.newError(msg)
	})

	// ---- errors ----
	reg("errors.Is", func(fr *frame, a []value) value { return fr.w.errorsIs(fr, a[0].(iface), a[1].(iface)) })
	// context.WithValue: the real one asks reflectlite whether the key type is
	// comparable; the result (a *valueCtx) is built directly.
	reg("context.WithValue", func(fr *frame, a []value) value {
		cp := fr.w.p.prog.ImportedPackage("context")
		if cp == nil || cp.Type("valueCtx") == nil {
			panic(unsupported("context.WithValue: context.valueCtx not found"))
		}
		named := cp.Type("valueCtx").Object().Type()
		var v value = structure{a[0], a[1], a[2]}
		return iface{t: types.NewPointer(named), v: &v}
	})
	reg("errors.As", func(fr *frame, a []value) value { return fr.w.errorsAs(fr, a[0].(iface), a[1].(iface)) })

	// ---- time ----
	reg("time.Now", func(fr *frame, a []value) value { return fr.w.timeNow() })
	reg("time.Since", func(fr *frame, a []value) value { return fr.w.sched.now - timeNs(a[0]) })
	reg("time.Until", func(fr *frame, a []value) value { return timeNs(a[0]) - fr.w.sched.now })
	reg("time.Sleep", func(fr *frame, a []value) value {
		w := fr.w
		g := w.sched.cur
		w.addTimer(asInt64(a[0]), 0, func() { w.makeRunnable(g) })
		w.park("time.Sleep")
		return nil
	})
	reg("time.After", func(fr *frame, a []value) value {
		w := fr.w
		c := w.newChan(1)
		w.addTimer(asInt64(a[0]), 0, func() {
			if len(c.buf) < c.cap || hasWaiter(c.recvq) {
				w.doSend(c, w.timeNow())
			}
		})
		return c
	})
	reg("time.Tick", func(fr *frame, a []value) value {
		w := fr.w
		c := w.newChan(1)
		d := asInt64(a[0])
		w.addTimer(d, d, func() {
			if len(c.buf) < c.cap || hasWaiter(c.recvq) {
				w.doSend(c, w.timeNow())
			}
		})
		return c
	})
	newTimerObj := func(fr *frame, d int64, period int64) value {
		w := fr.w
		c := w.newChan(1)
		// Timer and Ticker: struct{ C <-chan Time; init bool }
		st := value(structure{c, true})
		p := &st
		t := w.addTimer(d, period, func() {
			if len(c.buf) < c.cap || hasWaiter(c.recvq) {
				w.doSend(c, w.timeNow())
			}
		})
		w.timerObjs()[p] = t
		return p
	}
	reg("time.NewTimer", func(fr *frame, a []value) value { return newTimerObj(fr, asInt64(a[0]), 0) })
	reg("time.NewTicker", func(fr *frame, a []value) value {
		d := asInt64(a[0])
		if d <= 0 {
			panic(targetPanic{iface{t: types.Typ[types.String], v: "non-positive interval for NewTicker"}})
		}
		return newTimerObj(fr, d, d)
	})
	reg("time.AfterFunc", func(fr *frame, a []value) value {
		w := fr.w
		f := a[1]
		st := value(structure{(*chanObj)(nil), true})
		p := &st
		t := w.addTimer(asInt64(a[0]), 0, func() {
			w.spawn(f, nil, token.NoPos, false, "time.AfterFunc")
		})
		w.timerObjs()[p] = t
		return p
	})
	stopTimer := func(fr *frame, a []value) value {
		t := fr.w.timerObjs()[a[0].(*value)]
		if t == nil {
			return false
		}
		was := !t.stopped
		t.stopped = true
		return was
	}
	reg("(*time.Timer).Stop", stopTimer)
	reg("(*time.Ticker).Stop", func(fr *frame, a []value) value { stopTimer(fr, a); return nil })
	reg("(*time.Timer).Reset", func(fr *frame, a []value) value {
		w := fr.w
		t := w.timerObjs()[a[0].(*value)]
		if t == nil {
			return false
		}
		was := !t.stopped
		t.stopped = true
		nt := w.addTimer(asInt64(a[1]), 0, t.fire)
		w.timerObjs()[a[0].(*value)] = nt
		return was
	})
	reg("(*time.Ticker).Reset", func(fr *frame, a []value) value {
		w := fr.w
		t := w.timerObjs()[a[0].(*value)]
		if t == nil {
			return nil
		}
		t.stopped = true
		d := asInt64(a[1])
		nt := w.addTimer(d, d, t.fire)
		w.timerObjs()[a[0].(*value)] = nt
		return nil
	})
	reg("(time.Time).String", func(fr *frame, a []value) value { return fmt.Sprintf("T+%dns", timeNs(a[0])) })
	reg("(time.Duration).String", func(fr *frame, a []value) value { return fmt.Sprintf("%dns", asInt64(a[0])) })

	// ---- misc third-party leaf functions ----
	reg("github.com/google/uuid.New", func(fr *frame, a []value) value { return fr.w.freshUUID() })
	reg("github.com/google/uuid.NewRandom", func(fr *frame, a []value) value { return tuple{fr.w.freshUUID(), iface{}} })
	reg("github.com/google/uuid.Must", func(fr *frame, a []value) value {
		if e := a[1].(iface); e.t != nil {
			panic(targetPanic{e})
		}
		return a[0]
	})
	reg("(github.com/google/uuid.UUID).String", func(fr *frame, a []value) value {
		return fmt.Sprintf("%x", bytesOf([]value(a[0].(array))))
	})
	reg("(github.com/ipfs/go-graphsync.RequestID).String", func(fr *frame, a []value) value {
		return fmt.Sprintf("%x", []byte(a[0].(structure)[0].(string)))
	})
	reg("(github.com/ipfs/go-graphsync.RequestID).Tag", func(fr *frame, a []value) value {
		return "graphsync-request-" + fmt.Sprintf("%x", []byte(a[0].(structure)[0].(string)))
	})
	reg("(github.com/libp2p/go-libp2p/core/peer.ID).String", func(fr *frame, a []value) value { return a[0] })
	reg("(github.com/libp2p/go-libp2p/core/peer.ID).ShortString", func(fr *frame, a []value) value { return a[0] })
	reg("(github.com/libp2p/go-libp2p/core/peer.ID).Loggable", func(fr *frame, a []value) value { return (*omap)(nil) })
	reg("(github.com/ipfs/go-cid.Cid).String", func(fr *frame, a []value) value {
		return fmt.Sprintf("cid:%x", []byte(a[0].(structure)[0].(string)))
	})
}

// wrapVerbIndex returns the operand index consumed by the first %w in format.
func wrapVerbIndex(format string) int {
	idx := 0
	for i := 0; i < len(format); i++ {
		if format[i] != '%' {
			continue
		}
		i++
		for i < len(format) && strings.IndexByte("+-# 0123456789.", format[i]) >= 0 {
			i++
		}
		if i >= len(format) {
			break
		}
		if format[i] == '%' {
			continue
		}
		if format[i] == 'w' {
			return idx
		}
		idx++
	}
	return -1
}

func (w *world) timerObjs() map[*value]*vtimer {
	if w.sched.timerTab == nil {
		w.sched.timerTab = make(map[*value]*vtimer)
	}
	return w.sched.timerTab
}

// time.Time is struct{ wall uint64; ext int64; loc *Location }.  Virtual
// instants carry their nanosecond count in ext, wall = 0 (no monotonic flag).
const timeBase = int64(1_000_000) // seconds since year 1 (arbitrary epoch)

func (w *world) timeNow() value {
	ns := w.sched.now
	return structure{uint64(ns % 1_000_000_000), timeBase + ns/1_000_000_000, (*value)(nil)}
}

func timeNs(t value) int64 {
	st := t.(structure)
	return (st[1].(int64)-timeBase)*1_000_000_000 + int64(st[0].(uint64)&((1<<30)-1))
}

func (w *world) freshUUID() value {
	w.counter++
	a := make(array, 16)
	for i := range a {
		a[i] = byte(0)
	}
	a[0] = byte(0xee)
	a[6] = byte(0x40)
	a[15] = byte(w.counter)
	a[14] = byte(w.counter >> 8)
	return a
}

func (w *world) newError(msg string) value {
	st := value(structure{msg})
	return iface{t: types.NewPointer(w.p.errorsErrorString), v: &st}
}

// callMethod invokes the named method on the dynamic value of itf.
func (w *world) callMethod(fr *frame, itf iface, name string, args ...value) value {
	if itf.t == nil {
		panic("invalid memory address or nil pointer dereference (method on nil interface)")
	}
	fn := w.p.lookupMethodByName(itf.t, name)
	if fn == nil {
		panic(pathEnd{oEngine, fmt.Sprintf("no method %s on %s", name, itf.t)})
	}
	return call(w, fr, token.NoPos, fn, append([]value{itf.v}, args...))
}

func (w *world) hasMethod(t types.Type, name string) *ssa.Function {
	if t == nil {
		return nil
	}
	return w.p.lookupMethodByName(t, name)
}

// fmtArgs converts a []interface{} of the target into Go values for fmt.
func (w *world) fmtArgs(fr *frame, v value) []any {
	xs, _ := v.([]value)
	out := make([]any, len(xs))
	for i, x := range xs {
		out[i] = w.fmtArg(fr, x)
	}
	return out
}

type rawString string

func (r rawString) Format(f fmt.State, verb rune) { fmt.Fprint(f, string(r)) }

func (w *world) fmtArg(fr *frame, x value) any {
	itf, ok := x.(iface)
	if !ok {
		return rawString(toString(x))
	}
	if itf.t == nil {
		return nil
	}
	switch v := itf.v.(type) {
	case bool, int, int8, int16, int32, int64, uint, uint8, uint16, uint32, uint64, uintptr, float32, float64, string:
		// named types with Error/String methods take precedence
		if _, isNamed := types.Unalias(itf.t).(*types.Named); !isNamed {
			return v
		}
		if w.hasMethod(itf.t, "Error") == nil && w.hasMethod(itf.t, "String") == nil {
			return v
		}
	case sym:
		if u, ok := w.uniqueValue(v); ok {
			return concreteOfKind(v.k, u)
		}
		return rawString("<sym>")
	}
	for _, m := range []string{"Error", "String"} {
		if fn := w.hasMethod(itf.t, m); fn != nil && fn.Signature.Params().Len() == 0 && fn.Signature.Results().Len() == 1 {
			if b, ok := fn.Signature.Results().At(0).Type().Underlying().(*types.Basic); ok && b.Kind() == types.String {
				if p, ok := itf.v.(*value); ok && p == nil {
					return rawString("<nil>")
				}
				r := call(w, fr, token.NoPos, fn, []value{itf.v})
				if s, ok := r.(string); ok {
					return rawString(s)
				}
			}
		}
	}
	if b, ok := itf.v.([]value); ok {
		if sl, ok := itf.t.Underlying().(*types.Slice); ok {
			if bt, ok := sl.Elem().Underlying().(*types.Basic); ok && bt.Kind() == types.Uint8 {
				allc := true
				for _, e := range b {
					if _, ok := e.(byte); !ok {
						allc = false
					}
				}
				if allc {
					return bytesOf(b)
				}
			}
		}
	}
	return rawString(toString(itf.v))
}

// uniqueValue reports the value of s when the path condition pins it to one.
func (w *world) uniqueValue(s sym) (uint64, bool) {
	if w.sol == nil || s.k == types.Bool {
		return 0, false
	}
	m, ok := w.model(nil)
	if !ok {
		return 0, false
	}
	v := w.evalModel(s.t, m)
	if w.feasible(w.tt.not(w.tt.eq(s.t, w.tt.konst(s.t.w, v)))) == "unsat" {
		return v, true
	}
	return 0, false
}

func (w *world) writeTo(fr *frame, wr iface, s string) value {
	r := w.callMethod(fr, wr, "Write", valuesOfBytes([]byte(s)))
	return r
}

func (w *world) unwrapErr(fr *frame, err iface) []iface {
	fn := w.hasMethod(err.t, "Unwrap")
	if fn == nil || fn.Signature.Params().Len() != 0 || fn.Signature.Results().Len() != 1 {
		return nil
	}
	r := call(w, fr, token.NoPos, fn, []value{err.v})
	switch r := r.(type) {
	case iface:
		if r.t == nil {
			return nil
		}
		return []iface{r}
	case []value:
		var out []iface
		for _, e := range r {
			if ei := e.(iface); ei.t != nil {
				out = append(out, ei)
			}
		}
		return out
	}
	return nil
}

func (w *world) errorsIs(fr *frame, err, target iface) bool {
	if err.t == nil || target.t == nil {
		return err.t == nil && target.t == nil
	}
	comparable := types.Comparable(target.t)
	var is func(err iface) bool
	is = func(err iface) bool {
		if comparable && sameType(err.t, target.t) && equals(err.t, err.v, target.v) {
			return true
		}
		if fn := w.hasMethod(err.t, "Is"); fn != nil && fn.Signature.Params().Len() == 1 && fn.Signature.Results().Len() == 1 {
			if w.concreteBool(call(w, fr, token.NoPos, fn, []value{err.v, target})) {
				return true
			}
		}
		for _, u := range w.unwrapErr(fr, err) {
			if is(u) {
				return true
			}
		}
		return false
	}
	return is(err)
}

func (w *world) errorsAs(fr *frame, err, target iface) bool {
	if err.t == nil {
		return false
	}
	if target.t == nil {
		panic(targetPanic{iface{t: types.Typ[types.String], v: "errors: target cannot be nil"}})
	}
	pt, ok := target.t.Underlying().(*types.Pointer)
	if !ok {
		panic(targetPanic{iface{t: types.Typ[types.String], v: "errors: target must be a non-nil pointer"}})
	}
	elemT := pt.Elem()
	cell := target.v.(*value)
	var as func(err iface) bool
	as = func(err iface) bool {
		if it, ok := elemT.Underlying().(*types.Interface); ok {
			if types.Implements(err.t, it) {
				*cell = err
				return true
			}
		} else if types.Identical(err.t, elemT) {
			store(elemT, cell, err.v)
			return true
		}
		if fn := w.hasMethod(err.t, "As"); fn != nil && fn.Signature.Params().Len() == 1 {
			if w.concreteBool(call(w, fr, token.NoPos, fn, []value{err.v, target})) {
				return true
			}
		}
		for _, u := range w.unwrapErr(fr, err) {
			if as(u) {
				return true
			}
		}
		return false
	}
	return as(err)
}
